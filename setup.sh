#!/bin/bash
# Offline setup: nothing to build (pure Python); verify the interpreter, the repo import and the oracles' self-test.
cd "$(dirname "$0")" || exit 2
export PYTHONDONTWRITEBYTECODE=1 PYTHONHASHSEED=0 MPLBACKEND=Agg
mkdir -p evidence replays
/venv/bin/python -W ignore -m icverif.selftest
