#!/usr/bin/env python3
"""Print DESIGN.md table rows for the seeded changes committed at or after a given commit (default: wave 3)."""
import json, subprocess, sys
since = sys.argv[1] if len(sys.argv) > 1 else "ef73bb0"
names = subprocess.run(["git", "log", "--name-only", "--pretty=format:", f"{since}..HEAD", "--diff-filter=A", "--", "seeded"], capture_output=True, text=True, cwd="/verif").stdout.split()
ids = sorted({p.split("/")[1] for p in names if p.endswith("meta.json")})
for i in ids:
    m = json.load(open(f"/verif/seeded/{i}/meta.json"))
    print(f"| {i} (wave 3) | {m['needs_to_manifest']} | {' '.join(m['detected_by'])} |")
print(len(ids), file=sys.stderr)
