#!/bin/bash
# usage: tools/baseline_check.sh <repo-or-worktree-dir>   -> prints how many of BASELINE.stable_pass pass there
d="${1:-/repo}"
out=$(mktemp /tmp/junit.XXXXXX.xml)
( cd "$d" && env -u ICVERIF OMP_NUM_THREADS=2 MPLBACKEND=Agg /venv/bin/python -m pytest -ra -q -p no:cacheprovider --timeout=900 \
    --continue-on-collection-errors --junitxml="$out" >/dev/null 2>&1 )
python3 - "$out" <<'PY'
import json, sys, xml.etree.ElementTree as ET
sp = set(json.load(open('/root/.vp/BASELINE.json'))['stable_pass'])
res = {}
for tc in ET.parse(sys.argv[1]).iter('testcase'):
    name = f"{tc.get('classname')}::{tc.get('name')}"
    bad = any(c.tag in ('failure', 'error', 'skipped') for c in tc)
    res[name] = res.get(name, True) and not bad
passed = {k for k, v in res.items() if v}
missing = sorted(sp - passed)
print(f"stable_pass={len(sp)} passing_now={len(sp & passed)} broken={len(missing)}")
for m in missing[:20]:
    print("  BROKEN", m)
sys.exit(1 if missing else 0)
PY
rc=$?
rm -f "$out"
exit $rc
