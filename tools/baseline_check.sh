#!/bin/bash
# usage: tools/baseline_check.sh <repo-or-worktree-dir>   -> prints how many of BASELINE.stable_pass pass there.
# Tests that fail in the full run are re-run on their own up to 2 more times (test_random_is_random is known to be flaky:
# the solver seed is the import-time wall clock); a test counts as broken only if it never passes.
d="${1:-/repo}"
out=$(mktemp /tmp/junit.XXXXXX.xml)
( cd "$d" && env -u ICVERIF OMP_NUM_THREADS=2 MPLBACKEND=Agg /venv/bin/python -m pytest -ra -q -p no:cacheprovider --timeout=900 \
    --continue-on-collection-errors --junitxml="$out" >/dev/null 2>&1 )
python3 - "$out" "$d" <<'PY'
import json, subprocess, sys, xml.etree.ElementTree as ET, os, tempfile
sp = set(json.load(open('/root/.vp/BASELINE.json'))['stable_pass'])
def passed_of(xml):
    res = {}
    for tc in ET.parse(xml).iter('testcase'):
        name = f"{tc.get('classname')}::{tc.get('name')}"
        bad = any(c.tag in ('failure', 'error', 'skipped') for c in tc)
        res[name] = res.get(name, True) and not bad
    return {k for k, v in res.items() if v}
passed = passed_of(sys.argv[1])
missing = sorted(sp - passed)
flaky = []
for attempt in range(2):
    if not missing:
        break
    ids = []
    for m in missing:
        cls, test = m.split('::', 1)
        parts = cls.split('.')
        # module path up to test_*.py, remaining parts are classes
        i = max(j for j, p in enumerate(parts) if p.startswith('test_'))
        ids.append('/'.join(parts[:i + 1]) + '.py::' + '::'.join(parts[i + 1:] + [test]))
    x = tempfile.mktemp(suffix='.xml')
    subprocess.run(['/venv/bin/python', '-m', 'pytest', '-q', '-p', 'no:cacheprovider', '--timeout=900', f'--junitxml={x}'] + ids,
                   cwd=sys.argv[2], env={**os.environ, 'MPLBACKEND': 'Agg', 'OMP_NUM_THREADS': '2'}, capture_output=True)
    try:
        p2 = passed_of(x)
        os.unlink(x)
    except Exception:
        p2 = set()
    now_ok = [m for m in missing if m in p2]
    flaky += now_ok
    missing = [m for m in missing if m not in p2]
print(f"stable_pass={len(sp)} passing_now={len(sp) - len(missing)} broken={len(missing)} flaky_passed_on_rerun={len(flaky)}")
for m in missing[:20]:
    print("  BROKEN", m)
sys.exit(1 if missing else 0)
PY
rc=$?
rm -f "$out"
exit $rc
