#!/bin/bash
# usage: tools/validate_mutant.sh <name> <patch.diff> <demo.py>  -- scratch worktree of /repo HEAD: demo passes without, fails with, baseline passes with
name="$1"; patch="$2"; demo="$3"
wt=/tmp/wt/v_$name
git -C /repo worktree remove --force "$wt" 2>/dev/null
git -C /repo worktree add -q --detach "$wt" HEAD || exit 2
mkdir -p "$wt/OUT/x"; cp "$demo" "$wt/OUT/x/demo.py"
cd "$wt"
MPLBACKEND=Agg /venv/bin/python OUT/x/demo.py >/dev/null 2>&1; r0=$?
git apply "$patch" || { echo "$name: patch does not apply"; git -C /repo worktree remove --force "$wt"; exit 2; }
MPLBACKEND=Agg /venv/bin/python OUT/x/demo.py > "$wt/OUT/x/demo.out" 2>&1; r1=$?
base=$(/verif/tools/baseline_check.sh "$wt" | head -3 | tr '\n' ' ')
echo "$name: demo_without=$r0 demo_with=$r1 baseline: $base"
tail -2 "$wt/OUT/x/demo.out" | grep -v conda
cd /; git -C /repo worktree remove --force "$wt"
