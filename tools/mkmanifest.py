#!/usr/bin/env python3
"""Regenerate /verif/MANIFEST.json from the table below (run with any python3)."""
import json
import os

HERE = os.path.dirname(os.path.dirname(os.path.abspath(__file__)))
BASELINE = ("cd /repo && env -u ICVERIF /venv/bin/python -m pytest -ra -q -p no:cacheprovider --timeout=900 "
            "--continue-on-collection-errors")

# id -> (engine, technique, level text, level note, design ref)
CHECKS = {
    "C01": ("E1 lattice explorer",
            "explicit-state exploration of the real game object: every knowledge set, Euler walk over every lattice edge, BFS over dirty runs; oracle = hidden game",
            "Every hidden game of a completely enumerated integer/dyadic lattice (n=3: all 1276 superadditive games x 3 shifts; n=4: closure-rule games) "
            "is run through the complete knowledge lattice (8 / 1024 sets) on fresh objects, along a closed walk that uses every reveal/un-reveal edge on one "
            "long-lived object, and through all dirty operation runs of length <= 2 (incl. bulk resets, and runs on an object that served another game before: 'prelife'); at every "
            "clean state the real table is compared with the hidden game. Value-scale variants of every game (2^20 additive shift, 2^-30 units, 2^33), layered knowledge "
            "sets at n = 5..9 (10), both computers at n = 9; calls the library rejects inside dirty runs. Bounded-exhaustive, not a proof for n >= 5 or for float inputs outside the enumerated families.",
            "Trusts numpy float64 arithmetic on exactly representable values; states are snapshotted with copy.deepcopy and the first history per root and depth is re-executed from scratch; float families use the G2 tolerance.",
            "DESIGN.md §6 C01"),
    "C02": ("E1 lattice explorer",
            "explicit-state exploration of every knowledge set; oracle = explicit set-partition enumeration + exhaustive enumeration of integer completions",
            "At every knowledge set of every enumerated hidden game the real table is compared with == against the partition oracle (all set partitions into "
            "known coalitions; min over known strict supersets); both extremes are shown attained by explicit superadditive completions, and for all K with "
            "<= 3 (thorough 4) unknown coalitions ALL integer completions of the enclosing box are enumerated and their extremes compared. Bounded-exhaustive.",
            "Oracle O1 is validated against the definition by O2 on the same run; float families within the G2 tolerance in exact rationals.",
            "DESIGN.md §6 C02"),
    "C03": ("E1 lattice explorer (twin) + cache-state BFS",
            "lock-step explicit-state exploration of two real objects (one per computer) + BFS over the states of the process-wide memoised structure",
            "Both computers are driven through the same exploration (fresh object at every K, Euler walk over every edge, dirty runs) and the complete tables "
            "must be bit-identical after every compute, n=3,4 complete lattices, n=5..8 layered knowledge sets, all 2187 3-player games of any class; "
            "the memoisation is explored as a state machine (set of player counts used so far): every (state, size) transition, every first-use order of 4 sizes, "
            "memoised arrays compared with freshly built ones.",
            "Cache states are restored by cache_clear + replay of a first-use path; the private name of the memoised function is used when present, otherwise the check degrades to an interleaving comparison and says so.",
            "DESIGN.md §6 C03"),
    "C04": ("E1 lattice explorer",
            "exhaustive enumeration of (SAM game, knowledge set, repetition count) with the five clauses evaluated on the real tables",
            "All superadditive monotone-non-increasing integer games of a complete lattice (n=3: 156 x 3 variants, n=4: 282 / 3272) x every knowledge set x "
            "repetition counts 0..10,100,1000 (n=3), 0,1,2,3,10 (n=4): soundness against the hidden game, never looser than the SA bounds, monotone in r, "
            "lower bounds monotone along all nested pairs, upper bounds capped as stated.",
            "r=1000 only at n=3; float families (xos/xs/oxs/budget/coverage) within the G2 tolerance.",
            "DESIGN.md §6 C04"),
    "C07": ("E1 lattice explorer",
            "exhaustive enumeration of every reveal edge of the knowledge lattice, on canonical tables and by real reveal/un-reveal on one long-lived object",
            "Every edge (K, K+{S}) of the complete lattice (12 / 5120 per game) for every game of the class matching the computer, all six computers, "
            "all four gap functions evaluated by the real code and compared with first-principles values: interval inclusion, gap non-increase, gap >= 0, gap(full)=0.",
            "sam_apx_100 at n=4 only on two-valued games, sam_apx_1000 only at n=3; quick tier evaluates the real gap functions on a third of the n=4 games.",
            "DESIGN.md §6 C07"),
    "C08": ("E1 lattice explorer + env walk",
            "explicit-state BFS over operation histories (reveal, un-reveal, bulk reset, set, unset, compute) with digest de-duplication; differential oracle = fresh object at the same knowledge",
            "All six computers, games of any class: every clean state reached by the Euler walk (every edge both ways on one long-lived object) and by every "
            "dirty run of <= d operations (incl. re-reveal with a different value, writes through the bulk bound setters, and read-only observers, which must not change "
            "anything) must carry exactly the table a fresh object gets for that knowledge; compute is idempotent; every env state reached by step / unstep(any) / reset "
            "equals a fresh environment that revealed the same set (n=3 all, n=4..7 selected games, knowledge set directly on the env's game included).",
            "d = 1 (2 on an eighth of the games) quick, 2 (3 on 1/16) thorough; quick explores a third of the 3-player games per seed.",
            "DESIGN.md §6 C08"),
    "C05": ("E5 generic-point execution + basis/lattice enumeration",
            "complete enumeration of a basis of the bound-vector space and of a 4096-point lattice, plus all box vertices; real code executed on indeterminates as linearity guard",
            "The real compute_exploitability is executed on indeterminate bounds (exact coefficient of every lower/upper bound for n=2..7(8)); every unit bound vector "
            "(basis) through the float path; all 4096 three-player bound vectors over four interval shapes and canonical tables of the real computer (n=3,4): value == "
            "binomially weighted gap, sign, zero iff degenerate; for each of them every vertex completion of the box is enumerated and the per-player maximum used by the "
            "code compared with the maximum of the orderings-Shapley value over the vertices; numerical spot checks of the identity at n = 9, (12, 16,) 17; "
            "offsets of 2^33, tiny units, exactly-minimal knowledge under prescribed / SAM bounds; the whole check is run a second time under python -O.",
            "Linearity of the executed path is established by the guard run (no solver); float comparisons within 1e-11*scale*n.",
            "DESIGN.md §6 C05"),
    "C06": ("E5 generic-point execution + basis x orderings enumeration",
            "complete enumeration: every unit game x all n! orderings per n, all games of two small lattices; real code executed on indeterminates as linearity guard",
            "For each n=2..7(8) the exact coefficient of every v(S) in every player's value (real code on indeterminates) equals the count over all n! orderings; every unit "
            "game through the real float path via both entry points; all 2187 three-player games over {-1,0,1}, all 2048 four-player 0/1 games, 729 mixed games; efficiency, "
            "null players, relabellings, additivity on all pairs of basis games; 138 large-magnitude games M*u + small perturbation; "
            "unanimity combinations at n = 16, 17, one evaluation at n = 20; re-entrant value lookups, abandoned and interleaved value iterators; second pass under python -O.",
            "n=9,10 efficiency/symmetry only; float rounding bounded by 1e-12*scale, not enumerated.",
            "DESIGN.md §6 C06"),
    "C09": ("E1 env explorer",
            "explicit-state BFS to closure over {step, unstep of any revealed action, reset} on the real environment with deep-copied states and a reference environment",
            "The real ICG_Gym with a scripted hidden-game generator is explored to closure (n=3: every knowledge state x script position; n=4: all 1024 or the 16/64 states with "
            "pairs/triples known from the start); after EVERY transition all observables and the call's return value are compared with a dict reference environment "
            "(known set, hidden values, mask, normalised observation, reward = -first-principles gap of fresh bounds, done predicate, info, step counter) for every matching "
            "computer x four gap functions x budgets; two environments of one ModelInstance interleaved; n = 6, 7 configurations with depth bounds.",
            "States are deep copies of the env; dedup on (model state, canonical digest of all attributes); nearly additive hidden games use the library's normalised copy for the observation.",
            "DESIGN.md §6 C09"),
    "C10": ("configuration sweep",
            "complete enumeration of the generator registry x player counts x a seed window x two identically seeded calls; exact-rational class predicates",
            "Every registry key except 'convex' x n=3..7 (thorough 8) x every seed of a window moved by VERIF_SEED: runs, right size/dtype, v(empty)=0, superadditive within the "
            "documented 1e-9 tolerance decided in exact rationals, monotone for the SAM families, identical for identical seeds except the documented exceptions "
            "(the first result is scribbled over before the second call); call histories per generator in freshly forked processes: every ordered pair of player counts; "
            "a 4096-seed (thorough 16384) determinism window for the generators with data-dependent loops and the noisy factories; every generator with its "
            "continuous draws owned by the harness (tail quantiles); seeded draws repeated in separate interpreters under three string-hash salts.",
            "'All seeds' is met by a complete window; 'convex' needs the absent pyfmtools.",
            "DESIGN.md §6 C10"),
    "C11": ("E2 deterministic pool + enumeration",
            "exhaustive enumeration of schedules (worker counts = chunkings x chunk->worker assignments) on a deterministic process pool, independent subset enumeration as oracle",
            "get_exploitabilities_of_action_sequences for every starting knowledge (n=3 all; n=4 selected) x size limit x every worker count p x chunk->worker assignments on "
            "DetPool (real forked workers, chunks pickled as units), conformance runs on the real Pool; enumerated sets == all subsets once, gaps == gap of a fresh game with "
            "that knowledge, schedule independent (superadditive AND approximate-SAM computers); MetaGame values for all meta-coalitions; get_best_exploitability vs "
            "exhaustive per-size optimum, incl. games whose optimum is exactly 0 before everything is revealed, tiny units, near-ties, "
            "and environments that have already revealed coalitions.",
            "forkserver start method, worker crashes and timing are not modelled.",
            "DESIGN.md §6 C11"),
    "C12": ("E2 deterministic pool",
            "exhaustive enumeration of schedules (every worker count = every chunking of the repetition list, chunk->worker assignments) on a deterministic process pool",
            "evaluate() configured like the solve command for solvers x generators x repetition counts x p (quick 1,2,3,4,16; thorough 1..16) x assignments: every column "
            "replayed against its repetition's hidden game (reported through after_reset), matrices identical for all schedules, continuous generators give pairwise distinct "
            "hidden games, incl. generators that draw games done right after reset; the pool model implements the whole Pool API (for unordered entry points the schedule "
            "owns the completion order); real-Pool conformance runs; one list of 260 (520, 1030) repetitions; three configurations in separate interpreter "
            "invocations under PYTHONHASHSEED 0 / 1 / 4242. The random solver's per-chunk restart is a listed known finding recognised only by an exact behavioural model.",
            "forkserver not modelled; the known-finding matcher accepts only action matrices equal to the restart model's prediction.",
            "DESIGN.md §6 C12, §7 F5b"),
    "C13": ("E1 env walk + E2 deterministic pool",
            "exhaustive visit of every environment knowledge state with every registered solver; expected-greedy under every schedule of a deterministic pool",
            "Every state of the knowledge lattice (n=3 all 8, n=4 all 1024 / 64) on one long-lived env: each solver's action is valid, obeys its rule against an independent "
            "reward table, ties to the lowest index where exactly comparable, every attribute of the env unchanged, the same solver objects over several episodes with "
            "different hidden games, incl. n = 4 games outside the class the computer assumes; get_greedy_rewards (plain and randomised, all four gap functions) on scripted game sets x step limits x "
            "worker counts x assignments: greedy rule per step, no repeats, monotone curve, >= exhaustive optimum and == for 0 and 1 reveals, schedule independent.",
            "Tie-breaking inside float tolerance (exploitability / l2) is unconstrained.",
            "DESIGN.md §6 C13"),
    "C14": ("E1 regret explorer",
            "explicit-state BFS over iteration histories (state = both tables + counter) with invariants at every node of the game tree",
            "Construction for n=3 limits 1..5, n=4 limits 1..12, n=5 limits 1..3, plain/plus: ranking bijection, order, inverse; BFS over terminal-value vectors (n=3 all of "
            "{0,1,2}^terminals to depth 2/3; n=4,5 structured alphabets to depth 1-2; iterations that list only part of the terminal sets): distributions, supports, "
            "orthogonality, plus-twin relation, partial list == full list with zeros, save/load continuation, second load of the same checkpoint, an archived copy of the checkpoint directory.",
            "float32 tolerances; states restored by assigning table copies, re-derived on fresh objects by history replay (all states at n=3).",
            "DESIGN.md §6 C14"),
    "C15": ("input enumeration",
            "complete enumeration of integer/dyadic game lattices, additive and nearly additive families and generator seed windows against exact-rational normalisation",
            "All A3-SA / A4-SA games x {plain, shift, dyadic}, additive integer and float games, nearly additive games (additive + 2^-k * superadditive), every registered "
            "generator in a seed window (graph games in both representations, weight matrices also big-endian and long double), additive float games with cancelling weights: values compared with exact rational "
            "normalisation under a three-zone specification; "
            "de-normalisation restores the input.",
            "Between 1e-12 and 2^-21 relative surplus either outcome is accepted.",
            "DESIGN.md §6 C15"),
    "C16": ("E1 + E4 choice controller",
            "explicit-state BFS where every (size, tie-break candidate) pair is a transition: numpy.random.choice is owned by the harness",
            "ICG_Gym_Linear explored with all tie-breaks enumerated over several episodes on one long-lived env (differing hidden games, incl. non-superadditive ones): "
            "n=3,4 all states until done, n=5 depth 3(4), n=6 depth 2, environments with a whole size known from the start, sizes of wildly different magnitude: mask per size, candidates offered == unknown "
            "coalitions of that size, exactly one new coalition of that size revealed and reported, reward/done/observation aggregation against the wrapped env.",
            "If a step stops consulting numpy.random.choice the run is marked non-exhaustive (never a violation).",
            "DESIGN.md §6 C16"),
    "C17": ("E1 object explorer",
            "explicit-state BFS over public value operations of the real game object with a dict reference model",
            "n=1,2 to closure, n=3 depth 3 (thorough 4), n=5 depth 2, plus roots produced by a real bound computer: after every operation every public getter is compared "
            "with the model (selections also passed as one-shot iterables, unsorted lists, arguments aliasing the object's own table, infinite bound vectors, "
            "the empty coalition as an ordinary argument); copy / negation independence and read-only observers probed in every state; second pass under python -O.",
            "Bounds of unknown coalitions left unspecified by the statement are not compared.",
            "DESIGN.md §6 C17"),
    "C18": ("input enumeration",
            "complete enumeration of coalitions (n<=10), ordered pairs (n<=6) and of two game lattices for the predicates, against Python frozenset / textbook definitions",
            "Every coalition for n=1..10 (3^n sub/super elements), every ordered pair for n<=6, object API vs id-array API vs frozenset; predicates on all 16384 + 2x32768 + "
            "2187 lattice games plus relative-1e-6 perturbations of tight constraints, the n=3 lattice in tiny / huge units, eight (rtol, atol) combinations "
            "against the documented rule in exact rationals; augmented assignment on aliased operands; from_players on containers naming a player twice; games with v(empty) != 0.",
            "Inside of the documented 1e-9 band unconstrained.",
            "DESIGN.md §6 C18"),
    "C19": ("E1 file explorer",
            "explicit-state BFS over save sequences (state = bytes of data.json) against a first-write-wins dict model",
            "All sequences of save_json(name, result) over 3 names x 4 result shapes to depth 3 (thorough 4) with metadata of non-JSON types; read-back through both loaders; "
            "the same through save() with all savers; solve / greedy / best_states commands with the producing function wrapped (expectations frozen before the save, "
            "two commands through the whole save() pipeline).",
            "Other savers' exceptions on repeated / path-like names are outside the statement.",
            "DESIGN.md §6 C19"),
    "C20": ("E3 CrashFS",
            "exhaustive fault enumeration on the real save path: kill before every OS-level operation, every torn-write offset, OSError at every operation, interrupt at traced lines",
            "File histories with 0/1/3/12(33) earlier runs (and a results file that is a symbolic link, live or dangling) x result sizes 200 B / 3 KiB / 40 KiB x every kill point (cross-checked against a forked child that really dies), every "
            "torn-write byte offset (<= 2 KiB payloads; boundary + stride above), ENOSPC/EIO at every operation, fault sequences (ENOSPC then death at any later operation), "
            "KeyboardInterrupt at traced lines; afterwards data.json is the "
            "old or the complete new file, parses, keeps earlier runs, and a recovery save works.",
            "Process death / interruption, not power loss; interrupt injection is strided for large results (reported as a cap).",
            "DESIGN.md §6 C20"),
}

NOT_YET = {}


def main() -> None:
    props = [json.loads(l) for l in open(os.path.join(HERE, "properties.jsonl"), encoding="utf-8")]
    checks = []
    na = []
    for p in props:
        pid = p["id"]
        if pid in CHECKS:
            engine, technique, text, note, ref = CHECKS[pid]
            checks.append({
                "property_id": pid,
                "quick_cmd": f"./check {pid} --tier quick",
                "thorough_cmd": f"./check {pid} --tier thorough",
                "evidence_file": f"/verif/evidence/{pid}.json",
                "replay_cmd_template": f"./check {pid} --replay {{path}}",
                "engine": engine,
                "level_claimed": {"category": "model_checking", "text": text, "design_ref": ref},
                "level_note": note,
                "technique": technique,
            })
        else:
            na.append({"property_id": pid,
                       "reason": NOT_YET.get(pid, "check not built yet in this revision of /verif (planned in DESIGN.md §6); not claimed until its explorer exists")})
    manifest = {
        "version": 1,
        "setup_cmd": "./setup.sh",
        "hooks": {
            "guard": "ICVERIF",
            "enable": "none needed: the harness monkey-patches module attributes from outside (Pool, numpy.random.choice, io.open, os.replace); "
                      "ICVERIF=1 is exported by ./check and only switches harness behaviour",
            "baseline_off_cmd": BASELINE,
            "source_commits": [],
            "add_only": True,
        },
        "engines": [
            {"name": "E1 lattice explorer", "path": "icverif/lattice.py", "serves_properties": ["C01", "C02", "C03", "C04", "C07", "C08"],
             "kind_free_text": "explicit-state exploration driving the real IncompleteCooperativeGame + bound computers"},
            {"name": "E1 env explorer", "path": "icverif/envmodel.py", "serves_properties": ["C08", "C09", "C13", "C16"],
             "kind_free_text": "BFS over step/unstep/reset of the real gym environment with a reference environment"},
            {"name": "E2 deterministic pool", "path": "icverif/detpool.py", "serves_properties": ["C11", "C12", "C13"],
             "kind_free_text": "drop-in for multiprocessing.Pool with harness-chosen chunk->worker assignment, real forked workers"},
            {"name": "E3 CrashFS", "path": "icverif/crashfs.py", "serves_properties": ["C20"],
             "kind_free_text": "fault-injecting file layer: kill / tear / fail at every OS-level operation"},
            {"name": "E4 choice controller", "path": "icverif/props/c16.py", "serves_properties": ["C16"],
             "kind_free_text": "owns numpy.random.choice so every tie-break is a transition"},
            {"name": "E5 generic-point execution", "path": "icverif/linform.py", "serves_properties": ["C05", "C06"],
             "kind_free_text": "real code executed on formal linear forms (linearity guard for the basis argument)"},
        ],
        "checks": checks,
        "not_applicable": na,
        "notes": "All checks import incomplete_cooperative from /repo's working tree on every run. Exit 0 = held on everything explored, "
                 "1 = VIOLATION line(s) with replay files under /verif/replays, 2 = harness error (never a verdict).",
    }
    with open(os.path.join(HERE, "MANIFEST.json"), "w", encoding="utf-8") as f:
        json.dump(manifest, f, indent=1)
        f.write("\n")


if __name__ == "__main__":
    main()
