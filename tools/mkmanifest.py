#!/usr/bin/env python3
"""Regenerate /verif/MANIFEST.json from the table below (run with any python3)."""
import json
import os

HERE = os.path.dirname(os.path.dirname(os.path.abspath(__file__)))
BASELINE = ("cd /repo && env -u ICVERIF /venv/bin/python -m pytest -ra -q -p no:cacheprovider --timeout=900 "
            "--continue-on-collection-errors")

# id -> (engine, technique, level text, level note, design ref)
CHECKS = {
    "C01": ("E1 lattice explorer",
            "explicit-state exploration of the real game object: every knowledge set, Euler walk over every lattice edge, BFS over dirty runs; oracle = hidden game",
            "Every hidden game of a completely enumerated integer/dyadic lattice (n=3: all 1276 superadditive games x 3 shifts; n=4: closure-rule games) "
            "is run through the complete knowledge lattice (8 / 1024 sets) on fresh objects, along a closed walk that uses every reveal/un-reveal edge on one "
            "long-lived object, and through all dirty operation runs of length <= 2; at every clean state the real table is compared with the hidden game. "
            "Bounded-exhaustive, not a proof for n >= 5 or for float inputs outside the enumerated families.",
            "Trusts numpy float64 arithmetic on exactly representable values; snapshot/restore uses the public copy(); float families use the G2 tolerance.",
            "DESIGN.md §6 C01"),
    "C02": ("E1 lattice explorer",
            "explicit-state exploration of every knowledge set; oracle = explicit set-partition enumeration + exhaustive enumeration of integer completions",
            "At every knowledge set of every enumerated hidden game the real table is compared with == against the partition oracle (all set partitions into "
            "known coalitions; min over known strict supersets); both extremes are shown attained by explicit superadditive completions, and for all K with "
            "<= 3 (thorough 4) unknown coalitions ALL integer completions of the enclosing box are enumerated and their extremes compared. Bounded-exhaustive.",
            "Oracle O1 is validated against the definition by O2 on the same run; float families within the G2 tolerance in exact rationals.",
            "DESIGN.md §6 C02"),
    "C03": ("E1 lattice explorer (twin) + cache-state BFS",
            "lock-step explicit-state exploration of two real objects (one per computer) + BFS over the states of the process-wide memoised structure",
            "Both computers are driven through the same exploration (fresh object at every K, Euler walk over every edge, dirty runs) and the complete tables "
            "must be bit-identical after every compute, n=3,4 complete lattices, n=5..8 layered knowledge sets, all 2187 3-player games of any class; "
            "the memoisation is explored as a state machine (set of player counts used so far): every (state, size) transition, every first-use order of 4 sizes, "
            "memoised arrays compared with freshly built ones.",
            "Cache states are restored by cache_clear + replay of a first-use path; the private name of the memoised function is used when present, otherwise the check degrades to an interleaving comparison and says so.",
            "DESIGN.md §6 C03"),
    "C04": ("E1 lattice explorer",
            "exhaustive enumeration of (SAM game, knowledge set, repetition count) with the five clauses evaluated on the real tables",
            "All superadditive monotone-non-increasing integer games of a complete lattice (n=3: 156 x 3 variants, n=4: 282 / 3272) x every knowledge set x "
            "repetition counts 0..10,100,1000 (n=3), 0,1,2,3,10 (n=4): soundness against the hidden game, never looser than the SA bounds, monotone in r, "
            "lower bounds monotone along all nested pairs, upper bounds capped as stated.",
            "r=1000 only at n=3; float families (xos/xs/oxs/budget/coverage) within the G2 tolerance.",
            "DESIGN.md §6 C04"),
    "C07": ("E1 lattice explorer",
            "exhaustive enumeration of every reveal edge of the knowledge lattice, on canonical tables and by real reveal/un-reveal on one long-lived object",
            "Every edge (K, K+{S}) of the complete lattice (12 / 5120 per game) for every game of the class matching the computer, all six computers, "
            "all four gap functions evaluated by the real code and compared with first-principles values: interval inclusion, gap non-increase, gap >= 0, gap(full)=0.",
            "sam_apx_100 at n=4 only on two-valued games, sam_apx_1000 only at n=3; quick tier evaluates the real gap functions on a third of the n=4 games.",
            "DESIGN.md §6 C07"),
    "C08": ("E1 lattice explorer + env walk",
            "explicit-state BFS over operation histories (reveal, un-reveal, bulk reset, set, unset, compute) with digest de-duplication; differential oracle = fresh object at the same knowledge",
            "All six computers, games of any class: every clean state reached by the Euler walk (every edge both ways on one long-lived object) and by every "
            "dirty run of <= d operations must carry exactly the table a fresh object gets for that knowledge; compute is idempotent; step;unstep restores every "
            "observable of the real environment from every env state (n=3 all, n=4 selected games).",
            "d = 1 (2 on an eighth of the games) quick, 2 (3 on 1/16) thorough; quick explores a third of the 3-player games per seed.",
            "DESIGN.md §6 C08"),
}

NOT_YET = {}


def main() -> None:
    props = [json.loads(l) for l in open(os.path.join(HERE, "properties.jsonl"), encoding="utf-8")]
    checks = []
    na = []
    for p in props:
        pid = p["id"]
        if pid in CHECKS:
            engine, technique, text, note, ref = CHECKS[pid]
            checks.append({
                "property_id": pid,
                "quick_cmd": f"./check {pid} --tier quick",
                "thorough_cmd": f"./check {pid} --tier thorough",
                "evidence_file": f"/verif/evidence/{pid}.json",
                "replay_cmd_template": f"./check {pid} --replay {{path}}",
                "engine": engine,
                "level_claimed": {"category": "model_checking", "text": text, "design_ref": ref},
                "level_note": note,
                "technique": technique,
            })
        else:
            na.append({"property_id": pid,
                       "reason": NOT_YET.get(pid, "check not built yet in this revision of /verif (planned in DESIGN.md §6); not claimed until its explorer exists")})
    manifest = {
        "version": 1,
        "setup_cmd": "./setup.sh",
        "hooks": {
            "guard": "ICVERIF",
            "enable": "none needed: the harness monkey-patches module attributes from outside (Pool, numpy.random.choice, io.open, os.replace); "
                      "ICVERIF=1 is exported by ./check and only switches harness behaviour",
            "baseline_off_cmd": BASELINE,
            "source_commits": [],
            "add_only": True,
        },
        "engines": [
            {"name": "E1 lattice explorer", "path": "icverif/lattice.py", "serves_properties": ["C01", "C02", "C03", "C04", "C07", "C08"],
             "kind_free_text": "explicit-state exploration driving the real IncompleteCooperativeGame + bound computers"},
        ],
        "checks": checks,
        "not_applicable": na,
        "notes": "All checks import incomplete_cooperative from /repo's working tree on every run. Exit 0 = held on everything explored, "
                 "1 = VIOLATION line(s) with replay files under /verif/replays, 2 = harness error (never a verdict).",
    }
    with open(os.path.join(HERE, "MANIFEST.json"), "w", encoding="utf-8") as f:
        json.dump(manifest, f, indent=1)
        f.write("\n")


if __name__ == "__main__":
    main()
