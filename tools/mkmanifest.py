#!/usr/bin/env python3
"""Regenerate /verif/MANIFEST.json from the table below (run with any python3)."""
import json
import os

HERE = os.path.dirname(os.path.dirname(os.path.abspath(__file__)))
BASELINE = ("cd /repo && env -u ICVERIF /venv/bin/python -m pytest -ra -q -p no:cacheprovider --timeout=900 "
            "--continue-on-collection-errors")

# id -> (engine, technique, level text, level note, design ref)
CHECKS = {
    "C01": ("E1 lattice explorer",
            "explicit-state exploration of the real game object: every knowledge set, Euler walk over every lattice edge, BFS over dirty runs; oracle = hidden game",
            "Every hidden game of a completely enumerated integer/dyadic lattice (n=3: all 1276 superadditive games x 3 shifts; n=4: closure-rule games) "
            "is run through the complete knowledge lattice (8 / 1024 sets) on fresh objects, along a closed walk that uses every reveal/un-reveal edge on one "
            "long-lived object, and through all dirty operation runs of length <= 2; at every clean state the real table is compared with the hidden game. "
            "Bounded-exhaustive, not a proof for n >= 5 or for float inputs outside the enumerated families.",
            "Trusts numpy float64 arithmetic on exactly representable values; snapshot/restore uses the public copy(); float families use the G2 tolerance.",
            "DESIGN.md §6 C01"),
}

NOT_YET = {}


def main() -> None:
    props = [json.loads(l) for l in open(os.path.join(HERE, "properties.jsonl"), encoding="utf-8")]
    checks = []
    na = []
    for p in props:
        pid = p["id"]
        if pid in CHECKS:
            engine, technique, text, note, ref = CHECKS[pid]
            checks.append({
                "property_id": pid,
                "quick_cmd": f"./check {pid} --tier quick",
                "thorough_cmd": f"./check {pid} --tier thorough",
                "evidence_file": f"/verif/evidence/{pid}.json",
                "replay_cmd_template": f"./check {pid} --replay {{path}}",
                "engine": engine,
                "level_claimed": {"category": "model_checking", "text": text, "design_ref": ref},
                "level_note": note,
                "technique": technique,
            })
        else:
            na.append({"property_id": pid,
                       "reason": NOT_YET.get(pid, "check not built yet in this revision of /verif (planned in DESIGN.md §6); not claimed until its explorer exists")})
    manifest = {
        "version": 1,
        "setup_cmd": "./setup.sh",
        "hooks": {
            "guard": "ICVERIF",
            "enable": "none needed: the harness monkey-patches module attributes from outside (Pool, numpy.random.choice, io.open, os.replace); "
                      "ICVERIF=1 is exported by ./check and only switches harness behaviour",
            "baseline_off_cmd": BASELINE,
            "source_commits": [],
            "add_only": True,
        },
        "engines": [
            {"name": "E1 lattice explorer", "path": "icverif/lattice.py", "serves_properties": ["C01", "C02", "C03", "C04", "C07", "C08"],
             "kind_free_text": "explicit-state exploration driving the real IncompleteCooperativeGame + bound computers"},
        ],
        "checks": checks,
        "not_applicable": na,
        "notes": "All checks import incomplete_cooperative from /repo's working tree on every run. Exit 0 = held on everything explored, "
                 "1 = VIOLATION line(s) with replay files under /verif/replays, 2 = harness error (never a verdict).",
    }
    with open(os.path.join(HERE, "MANIFEST.json"), "w", encoding="utf-8") as f:
        json.dump(manifest, f, indent=1)
        f.write("\n")


if __name__ == "__main__":
    main()
