#!/bin/bash
# usage: tools/try_mutant.sh <patch.diff> <ID> [<ID> ...]   -- apply to /repo, run the quick checks, always revert
patch="$1"; shift
cd /repo || exit 2
if [ -n "$(git status --porcelain --untracked-files=no)" ]; then echo "/repo not clean"; exit 2; fi
git apply "$patch" || { echo "patch does not apply"; exit 2; }
cd /verif
for id in "$@"; do
  out=$(./check "$id" --tier "${TIER:-quick}" 2>&1 | grep -v conda)
  rc=$?
  nv=$(echo "$out" | grep -c '^VIOLATION')
  echo "== $id: violations_lines=$nv  $(echo "$out" | grep "^\[$id\] tier" | sed 's/.*violations=/violations=/')"
  echo "$out" | grep -A1 '^VIOLATION' | head -4
done
git -C /repo checkout -- . ; git -C /repo status --porcelain --untracked-files=no
rm -f /verif/replays/*.json
