#!/usr/bin/env python3
"""usage: keep_mutant.py <cand-dir> <seeded-id> <property> <caught-by comma list> <needs text>"""
import json, os, shutil, sys
cand, sid, prop, caught, needs = sys.argv[1:6]
dst = os.path.join('/verif/seeded', sid)
os.makedirs(dst, exist_ok=True)
for f in ('patch.diff', 'demo.py', 'notes.md'):
    if os.path.exists(os.path.join(cand, f)):
        shutil.copy(os.path.join(cand, f), os.path.join(dst, f))
val = open(os.path.join(cand, 'validate.out')).read().strip().splitlines()[0] if os.path.exists(os.path.join(cand, 'validate.out')) else ''
meta = {
    "id": sid, "breaks_property": prop, "needs_to_manifest": needs,
    "origin": "independent sub-agent given only the property record and a scratch worktree",
    "confirmed": {"validation": val,
                  "how": "tools/validate_mutant.sh: scratch worktree of /repo HEAD; demo.py exits 0 without the patch and 1 with it; "
                         "the 605 stable-pass baseline tests all still pass with the patch (tools/baseline_check.sh)"},
    "detected_by": [c for c in caught.split(',') if c],
    "detection_run": "tools/try_mutant.sh <patch> <checks> (git apply to /repo, ./check <ID> --tier quick, git checkout -- .)",
}
json.dump(meta, open(os.path.join(dst, 'meta.json'), 'w'), indent=1)
print('kept', sid)
