#!/bin/bash
# usage: tools/run_seeded.sh [seeded-id ...]   -- for every seeded change: apply it to a scratch worktree of /repo HEAD, run the
# checks listed in its meta.json (detected_by) against that worktree (ICVERIF_REPO), report DETECTED / MISSED. /repo is never touched.
cd /verif
ids="$@"; [ -z "$ids" ] && ids=$(cd seeded && ls -d */ | tr -d /)
wt=/tmp/wt/seeded_regress
git -C /repo worktree remove --force $wt 2>/dev/null
git -C /repo worktree add -q --detach $wt HEAD || exit 2
cp -r /verif /tmp/verif_regress 2>/dev/null || { rm -rf /tmp/verif_regress; cp -r /verif /tmp/verif_regress; }
for id in $ids; do
  git -C $wt checkout -q -- . ; git -C $wt clean -fdq
  if ! git -C $wt apply /verif/seeded/$id/patch.diff 2>/dev/null; then echo "$id PATCH-DOES-NOT-APPLY"; continue; fi
  checks=$(python3 -c "import json;print(' '.join(json.load(open('/verif/seeded/$id/meta.json'))['detected_by']))")
  res=""
  for c in $checks; do
    out=$(cd /tmp/verif_regress && ICVERIF_REPO=$wt ./check $c --tier ${TIER:-quick} 2>&1 | grep -c '^VIOLATION')
    res="$res $c:$out"
    if [ "$FIRST_ONLY" = "1" ]; then break; fi
  done
  first=$(echo $res | awk '{print $1}' | cut -d: -f2)
  if [ "$first" -gt 0 ] 2>/dev/null; then echo "$id DETECTED $res"; else echo "$id MISSED-BY-PRIMARY $res"; fi
done
git -C /repo worktree remove --force $wt
rm -rf /tmp/verif_regress
