#!/bin/bash
# usage: tools/run_all.sh [quick|thorough] [ids...]  -- runs checks sequentially, prints one line each
tier="${1:-quick}"; shift
ids="$@"; [ -z "$ids" ] && ids="C01 C02 C03 C04 C05 C06 C07 C08 C09 C10 C11 C12 C13 C14 C15 C16 C17 C18 C19 C20"
cd /verif
for id in $ids; do
  s=$(date +%s)
  out=$(./check $id --tier $tier 2>&1 | grep -v conda)
  rc=$?
  e=$(( $(date +%s) - s ))
  echo "$id rc=$rc ${e}s $(echo "$out" | grep "^\[$id\] tier" | sed 's/.*states=/states=/')"
  echo "$out" | grep -E "^(VIOLATION|KNOWN-FINDING|HARNESS)" | head -3 | cut -c1-200
done
