"""E1 for the real ICG_Gym: explicit-state BFS over {step(a), unstep(a), reset} with a reference environment O5.

State  = the whole real env object (snapshotted with copy.deepcopy so that anything it keeps beyond the game table
         travels along); the MODEL state is (index of the hidden game in the script, set of revealed actions).
Dedup  = (model state, digest of the pickled env) - paths that reach the same model state with different hidden
         object state are explored separately (bounded by a cap that is reported).
Oracle = "reference": every observable is compared with O5 (dict model + canonical bounds + first-principles gap);
         "differential": every observable must equal, bit for bit, that of a fresh env that reached the same model state
         by revealing in ascending order (path independence / exact undo, used by C08).
"""
from __future__ import annotations

import copy
import hashlib
import pickle
from fractions import Fraction

import numpy as np

from . import alphabets as A
from . import envs, gaps
from . import oracles as O
from .core import Stats
from .lattice import read, run_history


class EnvCfg:
    def __init__(self, n: int, games, comp: str, gap_name: str, budget: int | None, tag: str = "", float_tol: float = 0.0,
                 known_extra: tuple = ()) -> None:
        self.n, self.games, self.comp, self.gap_name, self.budget, self.tag = n, [tuple(g) for g in games], comp, gap_name, budget, tag
        self.float_tol = float_tol
        self.known_extra = tuple(known_extra)      # coalitions known from the start in addition to the minimal information
        self.ex = [s for s in A.explorable_ids(n) if s not in self.known_extra]
        self.base = A.kmask(A.minimal_ids(n)) | A.kmask(self.known_extra)

    def doc(self, hist, **kw) -> dict:
        d = {"engine": "env", "n": self.n, "games": [list(g) for g in self.games], "computer": self.comp, "gap": self.gap_name,
             "budget": self.budget, "tag": self.tag, "float_tol": self.float_tol, "known_extra": list(self.known_extra),
             "history": [list(h) for h in hist]}
        d.update(kw)
        return d

    def make(self):
        script = envs.Script(self.games)
        env = envs.make_env(self.n, script, self.comp, gaps.registry()[self.gap_name], self.budget, known_extra=self.known_extra)
        return env, script


class Reference:
    """O5: what every observable must be for (hidden game, revealed action set, steps)."""

    def __init__(self, cfg: EnvCfg) -> None:
        self.cfg = cfg
        self.cache: dict = {}

    def normalised(self, v):
        """Exact normalisation of the hidden game (zone A) or None when the game is (nearly) additive: owned by C15."""
        n = self.cfg.n
        s, sigma, w = O.normalise_exact(v, n)
        if sigma == 0 or s < Fraction(1, 2 ** 21) * sigma:
            return None, 0.0
        tol = float(64 * n * Fraction(1, 2 ** 53) * sigma / s) + 1e-15
        return [float(x / s) for x in w], tol

    def expect(self, gi: int, R: frozenset, steps: int):
        key = (gi, R, steps)
        r = self.cache.get(key)
        if r is not None:
            return r
        cfg = self.cfg
        v = cfg.games[gi]
        K = cfg.base | A.kmask(cfg.ex[a] for a in R)
        tab = read(run_history(cfg.n, cfg.comp, v, [("reset", K), ("compute",)]))
        lo, up = tab.lo.tolist(), tab.up.tolist()
        exact = cfg.float_tol == 0.0
        gap = gaps.oracle(cfg.gap_name, lo, up, cfg.n, exact)
        gtol = gaps.tol_for(cfg.gap_name, lo, up, cfg.n, exact) + 1e-12 * abs(gap) + cfg.float_tol * (1 << cfg.n)
        mask = [a not in R for a in range(len(cfg.ex))]
        done = (cfg.budget is not None and steps >= cfg.budget) or not any(mask) or all(l == u for l, u in zip(lo, up))
        norm, ntol = self.normalised(v)
        r = {"K": K, "table": tab, "gap": gap, "gap_tol": gtol, "mask": mask, "done": done, "norm": norm, "norm_tol": ntol}
        self.cache[key] = r
        return r


def compare_reference(cfg: EnvCfg, ref: Reference, env, gi: int, R: frozenset, steps: int, ret=None, op=None) -> str | None:
    """All observables of the real env (and the return value of the last call) against O5."""
    e = ref.expect(gi, R, steps)
    v = cfg.games[gi]
    tab = read(env.incomplete_game)
    if tab.k != e["K"]:
        return f"known coalitions are {A.kmask_ids(tab.k)}, expected minimal information + chosen = {A.kmask_ids(e['K'])}"
    for s in A.kmask_ids(tab.k):
        if float(tab.lo[s]) != v[s] or float(tab.up[s]) != v[s]:
            return f"known coalition {s} carries [{float(tab.lo[s])}, {float(tab.up[s])}], hidden value is {v[s]}"
    if cfg.float_tol == 0.0:
        if tab.key != e["table"].key:
            return (f"bounds are not those of freshly recomputed bounds for this knowledge: lower={tab.lo.tolist()} upper={tab.up.tolist()}, "
                    f"expected lower={e['table'].lo.tolist()} upper={e['table'].up.tolist()}")
    elif not (np.allclose(tab.lo, e["table"].lo, rtol=0, atol=cfg.float_tol) and np.allclose(tab.up, e["table"].up, rtol=0, atol=cfg.float_tol)):
        return "bounds differ from freshly recomputed bounds for this knowledge"
    if int(env.steps_taken) != steps:
        return f"step counter is {env.steps_taken}, expected {steps}"
    hv = np.asarray(env.full_game.get_values(), dtype=np.float64).tolist()
    if hv != [float(x) for x in v]:
        return f"hidden game in force is {hv}, expected {list(v)}"
    mask = np.asarray(env.action_masks()).tolist()
    if mask != e["mask"]:
        return f"action mask {mask}, expected {e['mask']} (still-unknown explorable coalitions)"
    state = np.asarray(env.state, dtype=np.float64)
    results = [("property", state, float(env.reward), bool(env.done))]
    if ret is not None and op is not None and op[0] in ("step", "unstep"):
        results.append(("return value", np.asarray(ret[0], dtype=np.float64), float(ret[1]), bool(ret[2])))
        if ret[3] is not False:
            return f"{op[0]} returned truncated={ret[3]}"
        if ret[4].get("chosen_coalition") != cfg.ex[op[1]]:
            return f"info reports coalition {ret[4].get('chosen_coalition')}, the revealed coalition is {cfg.ex[op[1]]}"
    if ret is not None and op is not None and op[0] == "reset":
        results.append(("reset return value", np.asarray(ret[0], dtype=np.float64), float(env.reward), bool(env.done)))
        g = ret[1].get("game")
        if g is None or np.asarray(g.get_values()).tolist() != [float(x) for x in v]:
            return "reset info does not carry the new hidden game"
    for what, st_, rew, done in results:
        if st_.shape != (len(cfg.ex),):
            return f"{what}: observation has shape {st_.shape}"
        for a, s in enumerate(cfg.ex):
            if a in R:
                if e["norm"] is not None:
                    if abs(st_[a] - e["norm"][s]) > e["norm_tol"] * max(1.0, abs(e["norm"][s])):
                        return f"{what}: observation[{a}] = {st_[a]} but the normalised hidden value of coalition {s} is {e['norm'][s]}"
                else:
                    lib = float(env.normalized_game.get_value(env.explorable_coalitions[a]))
                    if st_[a] != lib:
                        return f"{what}: observation[{a}] = {st_[a]} differs from the library's own normalised copy {lib}"
            elif st_[a] != 0:
                return f"{what}: observation[{a}] = {st_[a]} for a coalition that is not revealed"
        if abs(-rew - e["gap"]) > e["gap_tol"]:
            return f"{what}: reward {rew} is not the negated gap {-e['gap']} of freshly recomputed bounds"
        if rew > e["gap_tol"]:
            return f"{what}: reward {rew} is positive"
        if done != e["done"]:
            return (f"{what}: done = {done}, expected {e['done']} (budget {cfg.budget}, steps {steps}, "
                    f"unknown left {sum(e['mask'])}, all intervals degenerate {all(l == u for l, u in zip(e['table'].lo.tolist(), e['table'].up.tolist()))})")
    return None


from .digest import deep_digest  # noqa: E402,F401


SKIP_ATTRS = ("generator", "gap_func", "observation_space", "action_space", "spec", "metadata", "_np_random", "render_mode")


def env_digest(env) -> bytes:
    try:
        d = {k: v for k, v in vars(env).items() if k not in SKIP_ATTRS}
        gen = env.generator
        d["_script_pos"] = getattr(gen, "calls", 0) % max(1, len(getattr(gen, "games", [0])))
        return hashlib.sha1(repr(deep_digest(d)).encode()).digest()
    except Exception:  # noqa: BLE001
        return b""


def snapshot(env):
    """Deep copy of the whole env; the (immutable) gym space objects and the gap function are shared, everything else is copied."""
    memo = {}
    for name in ("observation_space", "action_space", "gap_func"):
        o = getattr(env, name, None)
        if o is not None:
            memo[id(o)] = o
    return copy.deepcopy(env, memo)


def pickle_snapshot(env):
    """The env after a pickle round trip (what a pool worker receives): numpy views come back as independent arrays, functions by reference."""
    import pickle
    return pickle.loads(pickle.dumps(env))


def canonical_obs(cfg: EnvCfg, gi: int, R: frozenset):
    """Observation of a FRESH env that reached (gi, R) by resetting gi times and revealing in ascending order."""
    env, script = cfg.make()
    guard = 0
    while (script.calls - 1) % len(cfg.games) != gi:
        env.reset()
        guard += 1
        if guard > 4 * len(cfg.games):
            raise RuntimeError("scripted generator never reaches the requested hidden game")
    for a in sorted(R):
        env.step(a)
    return envs.observe(env)


def explore_env(st: Stats, cfg: EnvCfg, mode: str = "reference", max_depth: int | None = None, with_reset: bool = True,
                state_cap_factor: int = 12, snap: str = "deepcopy") -> None:
    """BFS to closure (or max_depth) over step / unstep / reset on the real env. snap="pickle": every state is carried over by a pickle
    round trip instead of a deep copy, i.e. every operation runs on an environment that has just been through pickle (as in a pool worker)."""
    take = snapshot if snap == "deepcopy" else pickle_snapshot
    try:
        env0, script = cfg.make()
    except Exception as e:  # noqa: BLE001
        st.violation(f"[env {cfg.tag} n={cfg.n} {cfg.comp} {cfg.gap_name}] constructing the environment raised {type(e).__name__}: {e}",
                     **cfg.doc([]))
        return
    ng = len(cfg.games)
    ref = Reference(cfg)
    canon: dict = {}
    # construction draws games: the model tracks the script position; the env's hidden game index after __init__
    gi0 = (script.calls - 1) % ng
    start = (gi0, frozenset())
    seen = {(start, env_digest(env0))}
    model_states = {start}
    frontier = [(env0, start, [], None)]
    cap = state_cap_factor * ng * (1 << len(cfg.ex))
    depth = 0

    def judge(env, ms, hist, ret=None, op=None) -> bool:
        gi, R = ms
        st.evals += 1
        try:
            if mode == "reference":
                msg = compare_reference(cfg, ref, env, gi, R, len(R), ret, op)
            else:
                c = canon.get(ms)
                if c is None:
                    c = canon[ms] = canonical_obs(cfg, gi, R)
                    st.traces += 1
                o = envs.observe(env)
                bad = [f for f in o._fields if getattr(o, f) != getattr(c, f)]
                msg = (f"observables {bad} differ from those of a fresh environment with the same revealed set "
                       f"(reward {o.reward} vs {c.reward}, steps {o.steps} vs {c.steps})") if bad else None
        except Exception as e:  # noqa: BLE001
            msg = f"observing the environment raised {type(e).__name__}: {e}"
        if msg:
            st.violation(f"[env {cfg.tag} n={cfg.n} {cfg.comp} {cfg.gap_name} budget={cfg.budget}] after {hist[-6:]}: {msg}", **cfg.doc(hist, mode=mode, snap=snap))
            return False
        return True

    if not judge(env0, start, []):
        return
    st.states += 1
    while frontier and (max_depth is None or depth < max_depth):
        nxt = []
        for env, (gi, R), hist, kept in frontier:
            ops = [("step", a) for a in range(len(cfg.ex)) if a not in R] + [("unstep", a) for a in sorted(R)]
            if with_reset:
                ops.append(("reset",))
            for op in ops:
                e2 = take(env)
                h2 = hist + [op]
                try:
                    if op[0] == "reset":
                        ret = e2.reset()
                        ms = ((e2.generator.calls - 1) % ng, frozenset())
                    else:
                        ret = getattr(e2, op[0])(op[1])
                        ms = (gi, R | {op[1]} if op[0] == "step" else R - {op[1]})
                except Exception as e:  # noqa: BLE001
                    st.violation(f"[env {cfg.tag} n={cfg.n} {cfg.comp} {cfg.gap_name}] {op} raised {type(e).__name__}: {e} after {hist[-6:]}",
                                 **cfg.doc(h2, mode=mode, snap=snap))
                    if st.nviol >= 3:
                        return
                    continue
                st.transitions += 1
                # what an EARLIER call returned belongs to the caller: a later call (on any environment) must not rewrite it
                if kept is not None and kept[0] != kept[1]:
                    st.violation(f"[env {cfg.tag} n={cfg.n} {cfg.comp} {cfg.gap_name}] the info dict returned by {hist[-1] if hist else 'reset'} read "
                                 f"{kept[1]} when it was returned and reads {kept[0]} after a later {op}", **cfg.doc(h2, mode=mode, snap=snap, kept_info=True))
                    if st.nviol >= 3:
                        return
                    kept = None
                if not judge(e2, ms, h2, ret, op):
                    if st.nviol >= 3:
                        return
                    continue
                key = (ms, env_digest(e2))
                if key in seen:
                    continue
                if len(seen) >= cap:
                    st.cap(f"env state cap {cap} reached (hidden object state makes paths distinguishable)")
                    continue
                seen.add(key)
                if ms not in model_states:
                    model_states.add(ms)
                st.states += 1
                info = ret[-1] if isinstance(ret, tuple) and ret and isinstance(ret[-1], dict) else None
                nxt.append((e2, ms, h2, (info, copy.deepcopy(info)) if info is not None else None))
        frontier = nxt
        depth += 1
    st.nontrivial += len(model_states)
    st.count("env_model_states", len(model_states))
    st.count("env_object_states", len(seen))
    st.outcomes |= {hash(k) for k in list(seen)[:5000]}


def replay_env(doc: dict) -> tuple[bool, str]:
    cfg = EnvCfg(doc["n"], doc["games"], doc["computer"], doc["gap"], doc.get("budget"), doc.get("tag", ""), doc.get("float_tol", 0.0),
                 tuple(doc.get("known_extra", ())))
    mode = doc.get("mode", "reference")
    hist = [tuple(h) for h in doc["history"]]
    try:
        env, script = cfg.make()
        ng = len(cfg.games)
        gi, R = (script.calls - 1) % ng, frozenset()
        ret = op = None
        kept = []
        for op in hist:
            if isinstance(ret, tuple) and ret and isinstance(ret[-1], dict):
                kept.append((ret[-1], copy.deepcopy(ret[-1])))
            if doc.get("snap") == "pickle":
                env = pickle_snapshot(env)
                script = env.generator
            if op[0] == "reset":
                ret = env.reset()
                gi, R = (script.calls - 1) % ng, frozenset()
            else:
                ret = getattr(env, op[0])(op[1])
                R = R | {op[1]} if op[0] == "step" else R - {op[1]}
        stale = [f"{b} -> {a}" for a, b in kept if a != b]
        if stale:
            msg = f"info dicts returned by earlier calls were rewritten by later ones: {stale[:3]}"
        elif mode == "reference":
            msg = compare_reference(cfg, Reference(cfg), env, gi, R, len(R), ret, op)
        else:
            c = canonical_obs(cfg, gi, R)
            o = envs.observe(env)
            bad = [f for f in o._fields if getattr(o, f) != getattr(c, f)]
            msg = f"observables {bad} differ from a fresh environment with the same revealed set" if bad else None
    except Exception as e:  # noqa: BLE001
        msg = f"raised {type(e).__name__}: {e}"
    return bool(msg), f"env replay n={cfg.n} computer={cfg.comp} gap={cfg.gap_name} budget={cfg.budget} history={hist}: {msg or 'all observables as specified'}"
