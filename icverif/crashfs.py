"""E3 — CrashFS: a fault-injecting file layer (DESIGN §3 E3).

While active, every file-modifying call the code under test makes goes through this layer:
  builtins.open / io.open (also reached by pathlib.Path.open/write_text and tempfile) -> the layer construction of io.open
  is re-done around a CrashRaw(io.RawIOBase) object, so Python's REAL BufferedWriter / TextIOWrapper decide when bytes
  reach the OS; os.replace / rename / unlink / remove / truncate / link / fsync / fdatasync / open / write are wrapped.
A controller numbers the OS-level operations  OPEN  WRITE  CLOSE  REPLACE  RENAME  UNLINK  TRUNCATE  LINK  FSYNC  and
injects exactly one fault per execution:
  kill(i)    the process dies immediately before operation i: from then on every operation is a silent no-op (dead mode) and
             Killed (a BaseException) unwinds the program - what is on disk is what SIGKILL at that point leaves
  tear(i,b)  WRITE i applies only its first b bytes, then kill
  fail(i,e)  operation i raises OSError(e); the program continues and its cleanup runs for real
  realkill(i) (in a forked child) os._exit() immediately before operation i - conformance for kill(i)
"""
from __future__ import annotations

import builtins
import errno as _errno
import io
import os
import sys
from typing import Any

_real = {name: getattr(os, name) for name in ("open", "write", "close", "replace", "rename", "unlink", "remove", "truncate", "link", "fsync",
                                                "fdatasync", "ftruncate", "lseek", "fstat", "sendfile", "copy_file_range") if hasattr(os, name)}
_real_open = builtins.open
_real_io_open = io.open


class Killed(BaseException):
    """The simulated process died here."""


class Controller:
    def __init__(self, mode: str = "record", at: int = -1, nbytes: int = 0, err: int = _errno.ENOSPC, root: str | None = None,
                 then_kill_at: int = -1) -> None:
        self.mode, self.at, self.nbytes, self.err = mode, at, nbytes, err
        self.then_kill_at = then_kill_at      # fault SEQUENCE: after the (non-fatal) fault at `at`, die before this later operation
        self.root = os.path.realpath(root) if root else None
        self.ops: list[tuple] = []
        self.dead = False
        self.fired = False

    def mine(self, path: Any) -> bool:
        if self.root is None:
            return True
        try:
            p = os.path.realpath(os.fspath(path))
        except TypeError:
            return True
        return p == self.root or p.startswith(self.root + os.sep)

    def gate(self, kind: str, *info: Any) -> str:
        """Called before each OS-level operation. Returns 'do', 'skip' (dead) or 'tear'; may raise."""
        if self.dead:
            return "skip"
        idx = len(self.ops)
        self.ops.append((kind,) + info)
        if idx == self.then_kill_at and self.fired:
            self.dead = True
            raise Killed(f"killed before op {idx} {kind} (after an earlier injected error)")
        if idx == self.at and not self.fired:
            self.fired = True
            if self.mode == "kill":
                self.dead = True
                raise Killed(f"killed before op {idx} {kind}")
            if self.mode == "realkill":
                os._exit(0)
            if self.mode == "tear":
                if kind != "WRITE":
                    self.dead = True
                    raise Killed(f"killed before op {idx} {kind}")
                return "tear"
            if self.mode == "fail":
                raise OSError(self.err, os.strerror(self.err))
        return "do"


CTL: Controller | None = None


class CrashRaw(io.RawIOBase):
    """Raw file whose OS-level operations are gated by the controller."""

    def __init__(self, file: Any, flags: int, mode: str, closefd: bool = True, opener=None) -> None:
        super().__init__()
        self._mode = mode
        self._closefd = closefd
        self.name = file
        ctl = CTL
        if isinstance(file, int):
            self._fd = file
            self._gated = True
        else:
            self._gated = ctl is not None and ctl.mine(file)
            act = "do"
            if self._gated:
                exists = os.path.exists(file)
                act = ctl.gate("OPEN", os.fspath(file), "creates" if (flags & os.O_CREAT and not exists) else "", "truncates" if flags & os.O_TRUNC and exists else "")
            if act == "skip":
                self._fd = -1
            else:
                self._fd = opener(file, flags) if opener else _real["open"](file, flags, 0o666)
        self._append = bool(flags & os.O_APPEND)

    def readable(self) -> bool:
        return "r" in self._mode or "+" in self._mode

    def writable(self) -> bool:
        return any(c in self._mode for c in "wax+")

    def seekable(self) -> bool:
        return True

    def fileno(self) -> int:
        return self._fd

    def isatty(self) -> bool:
        return False

    def readinto(self, b) -> int:
        if self._fd < 0:
            return 0
        data = os.read(self._fd, len(b))
        b[:len(data)] = data
        return len(data)

    def write(self, b) -> int:
        data = bytes(b)
        ctl = CTL
        act = ctl.gate("WRITE", self._fd, len(data)) if (ctl is not None and self._gated) else "do"
        if act == "skip" or self._fd < 0:
            return len(data)
        if act == "tear":
            if ctl.nbytes > 0:
                _real["write"](self._fd, data[:ctl.nbytes])
            ctl.dead = True
            raise Killed(f"killed inside a write after {ctl.nbytes} of {len(data)} bytes")
        return _real["write"](self._fd, data)

    def seek(self, pos: int, whence: int = 0) -> int:
        if self._fd < 0:
            return 0
        return _real["lseek"](self._fd, pos, whence)

    def tell(self) -> int:
        if self._fd < 0:
            return 0
        return _real["lseek"](self._fd, 0, 1)

    def truncate(self, size: int | None = None) -> int:
        if size is None:
            size = self.tell()
        ctl = CTL
        act = ctl.gate("TRUNCATE", self._fd, size) if (ctl is not None and self._gated) else "do"
        if act != "skip" and self._fd >= 0:
            _real["ftruncate"](self._fd, size)
        return size

    def close(self) -> None:
        if self.closed:
            return
        try:
            ctl = CTL
            if ctl is not None and self._gated and not ctl.dead:
                ctl.gate("CLOSE", self._fd)
        finally:
            try:
                super().close()
            finally:
                if self._fd >= 0 and self._closefd:
                    try:
                        _real["close"](self._fd)
                    except OSError:
                        pass
                    self._fd = -1


def _flags(mode: str) -> int:
    plus = "+" in mode
    if "r" in mode:
        fl = os.O_RDWR if plus else os.O_RDONLY
    elif "w" in mode:
        fl = (os.O_RDWR if plus else os.O_WRONLY) | os.O_CREAT | os.O_TRUNC
    elif "x" in mode:
        fl = (os.O_RDWR if plus else os.O_WRONLY) | os.O_CREAT | os.O_EXCL
    elif "a" in mode:
        fl = (os.O_RDWR if plus else os.O_WRONLY) | os.O_CREAT | os.O_APPEND
    else:
        raise ValueError(f"invalid mode {mode!r}")
    return fl | getattr(os, "O_CLOEXEC", 0)


def crash_open(file, mode="r", buffering=-1, encoding=None, errors=None, newline=None, closefd=True, opener=None):
    """io.open re-implemented around CrashRaw (same layering rules as the C implementation)."""
    modifying = any(c in mode for c in "wax+")
    if not modifying or CTL is None or (not isinstance(file, int) and not CTL.mine(file)):
        return _real_io_open(file, mode, buffering, encoding, errors, newline, closefd, opener)
    binary = "b" in mode
    core = mode.replace("b", "").replace("t", "")
    raw = CrashRaw(file, _flags(core) if not isinstance(file, int) else 0, core, closefd, opener)
    if buffering == 0:
        if not binary:
            raise ValueError("can't have unbuffered text I/O")
        return raw
    line_buffering = buffering == 1 and not binary
    if buffering < 0 or line_buffering:
        buffering = io.DEFAULT_BUFFER_SIZE
    if "+" in core:
        buf: Any = io.BufferedRandom(raw, buffering)
    elif "r" in core:
        buf = io.BufferedReader(raw, buffering)
    else:
        buf = io.BufferedWriter(raw, buffering)
    if binary:
        return buf
    text = io.TextIOWrapper(buf, encoding, errors, newline, line_buffering)
    text.mode = mode
    return text


def _wrap_path_op(kind: str, name: str, npaths: int):
    def f(*a, **kw):
        ctl = CTL
        paths = [os.fspath(x) for x in a[:npaths] if not isinstance(x, int)]
        if ctl is None or not any(ctl.mine(p) for p in paths):
            return _real[name](*a, **kw)
        act = ctl.gate(kind, *paths)
        if act == "skip":
            return None
        return _real[name](*a, **kw)
    f.__name__ = name
    return f


def _os_open(path, flags, mode=0o777, *, dir_fd=None):
    ctl = CTL
    if ctl is not None and ctl.mine(path) and flags & (os.O_WRONLY | os.O_RDWR | os.O_CREAT | os.O_TRUNC):
        exists = os.path.exists(path)
        act = ctl.gate("OPEN", os.fspath(path), "creates" if (flags & os.O_CREAT and not exists) else "", "truncates" if (flags & os.O_TRUNC and exists) else "")
        if act == "skip":
            return _real["open"](os.devnull, os.O_WRONLY)
    return _real["open"](path, flags, mode) if dir_fd is None else _real["open"](path, flags, mode, dir_fd=dir_fd)


def _os_write(fd, data):
    ctl = CTL
    if ctl is None or fd in (1, 2):
        return _real["write"](fd, data)
    act = ctl.gate("WRITE", fd, len(data))
    if act == "skip":
        return len(data)
    if act == "tear":
        if ctl.nbytes > 0:
            _real["write"](fd, bytes(data)[:ctl.nbytes])
        ctl.dead = True
        raise Killed("killed inside os.write")
    return _real["write"](fd, data)


def _os_sendfile(out_fd, in_fd, offset, count, *a, **kw):
    """shutil's fast copy path writes with sendfile: an OS-level write like any other."""
    ctl = CTL
    if ctl is None:
        return _real["sendfile"](out_fd, in_fd, offset, count, *a, **kw)
    act = ctl.gate("WRITE", out_fd, count)
    if act == "skip":
        return 0
    if act == "tear":
        if ctl.nbytes > 0:
            _real["sendfile"](out_fd, in_fd, offset, min(count, ctl.nbytes))
        ctl.dead = True
        raise Killed("killed inside sendfile")
    return _real["sendfile"](out_fd, in_fd, offset, count, *a, **kw)


def _os_copy_file_range(src, dst, count, *a, **kw):
    ctl = CTL
    if ctl is None:
        return _real["copy_file_range"](src, dst, count, *a, **kw)
    act = ctl.gate("WRITE", dst, count)
    if act == "skip":
        return 0
    if act == "tear":
        if ctl.nbytes > 0:
            _real["copy_file_range"](src, dst, min(count, ctl.nbytes))
        ctl.dead = True
        raise Killed("killed inside copy_file_range")
    return _real["copy_file_range"](src, dst, count, *a, **kw)


def _os_fsync(fd):
    ctl = CTL
    if ctl is not None:
        if ctl.gate("FSYNC", fd) == "skip":
            return None
    try:
        return _real["fsync"](fd)
    except OSError:
        return None


PATCHES = {
    "replace": _wrap_path_op("REPLACE", "replace", 2),
    "rename": _wrap_path_op("RENAME", "rename", 2),
    "unlink": _wrap_path_op("UNLINK", "unlink", 1),
    "remove": _wrap_path_op("UNLINK", "remove", 1),
    "truncate": _wrap_path_op("TRUNCATE", "truncate", 1),
    "link": _wrap_path_op("LINK", "link", 2),
    "open": _os_open,
    "write": _os_write,
    "fsync": _os_fsync,
    "fdatasync": _os_fsync,
}
if "sendfile" in _real:
    PATCHES["sendfile"] = _os_sendfile
if "copy_file_range" in _real:
    PATCHES["copy_file_range"] = _os_copy_file_range


class active:
    """Context manager installing the layer with the given controller."""

    def __init__(self, ctl: Controller) -> None:
        self.ctl = ctl

    def __enter__(self) -> Controller:
        global CTL
        CTL = self.ctl
        builtins.open = crash_open
        io.open = crash_open
        for name, fn in PATCHES.items():
            setattr(os, name, fn)
        return self.ctl

    def __exit__(self, *exc) -> bool:
        global CTL
        builtins.open = _real_open
        io.open = _real_io_open
        for name in PATCHES:
            setattr(os, name, _real[name])
        CTL = None
        return False


def snapshot_dir(root: str) -> dict[str, bytes]:
    """Relative path -> bytes of every regular file below root."""
    out = {}
    for d, _dirs, files in os.walk(root):
        for fn in files:
            p = os.path.join(d, fn)
            if os.path.islink(p) and not os.path.exists(p):        # a dangling symbolic link: recorded as such
                out[os.path.relpath(p, root)] = b"<dangling link to " + os.readlink(p).encode() + b">"
                continue
            with _real_open(p, "rb") as f:
                out[os.path.relpath(p, root)] = f.read()
    return out
