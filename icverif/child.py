"""Separate-interpreter executions: `python -m icverif.child <props module> <function> <json payload>`.

Some nondeterminism lives outside any one interpreter: string hashing is salted per process (PYTHONHASHSEED), so a result that
depends on hash() / set order of strings is a function of the interpreter, not of the seed. The harness owns this dimension by
running the same payload in fresh interpreters under an explicit menu of hash seeds and comparing what they print."""
from __future__ import annotations

import importlib
import json
import os
import subprocess
import sys

from . import VERIF, use_repo
from .core import HarnessError

MARK = "ICVERIF-CHILD-RESULT "
HASH_SEEDS = ("0", "1", "4242")


def run_children(module: str, func: str, payload, hash_seeds=HASH_SEEDS, timeout: int = 900) -> dict:
    """{hash seed: decoded result}; children run concurrently."""
    procs = {}
    for hs in hash_seeds:
        env = dict(os.environ)
        env["PYTHONHASHSEED"] = hs
        env["PYTHONPATH"] = VERIF + os.pathsep + env.get("PYTHONPATH", "")
        cmd = [sys.executable] + (["-O"] if sys.flags.optimize else []) + ["-W", "ignore", "-m", "icverif.child", module, func, json.dumps(payload)]
        procs[hs] = subprocess.Popen(cmd, stdout=subprocess.PIPE, stderr=subprocess.PIPE, text=True, env=env, cwd=VERIF)
    out = {}
    for hs, pr in procs.items():
        try:
            so, se = pr.communicate(timeout=timeout)
        except subprocess.TimeoutExpired:
            pr.kill()
            raise HarnessError(f"child {module}.{func} under PYTHONHASHSEED={hs} timed out")
        line = next((ln for ln in so.splitlines() if ln.startswith(MARK)), None)
        if line is None:
            raise HarnessError(f"child {module}.{func} under PYTHONHASHSEED={hs} printed no result (exit {pr.returncode}): {se[-600:]}")
        out[hs] = json.loads(line[len(MARK):])
    return out


def main() -> int:
    module, func, payload = sys.argv[1], sys.argv[2], json.loads(sys.argv[3])
    use_repo()
    mod = importlib.import_module(f"icverif.props.{module}")
    res = getattr(mod, func)(payload)
    print(MARK + json.dumps(res))
    return 0


if __name__ == "__main__":
    sys.exit(main())
