"""Self-test of the harness-side oracles and alphabets (no code under test involved except the import check)."""
import sys

from . import alphabets as A
from . import oracles as O


def main() -> int:
    assert len(A.a3_sa()) == 1276, len(A.a3_sa())
    assert len(A.a3_sam()) == 156 and len(A.a4_sam()) == 282
    assert len(A.a4_sa_full()) == 2048 and len(A.a4_sa_reps(0)) == 180
    assert all(A.is_superadditive(g) for g in A.a4_sa_reps(3))
    assert len(O.set_partitions(0b1111)) == 15 and len(O.set_partitions(0b11111)) == 52
    # Shapley by orderings: unanimity game on {0,1} of 3 players -> (1/2, 1/2, 0)
    v = [1 if (s & 3) == 3 else 0 for s in range(8)]
    assert [float(x) for x in O.shapley_by_orderings(v, 3)] == [0.5, 0.5, 0.0]
    # O1 on the minimal game with unit singletons, v(N) = 2n
    n = 3
    v = [0, 1, 1, 0, 1, 0, 0, 6]
    low, up = O.o1_bounds(v, A.kmask(A.minimal_ids(n)), n)
    assert low == [0, 1, 1, 2, 1, 2, 2, 6] and up == [0, 1, 1, 5, 1, 5, 5, 6], (low, up)
    assert O.o2_witnesses(v, A.kmask(A.minimal_ids(n)), n, low, up) is None
    import incomplete_cooperative  # noqa: F401  (must resolve to /repo)
    assert incomplete_cooperative.__file__.startswith(sys.path[0]), incomplete_cooperative.__file__
    print("icverif selftest ok")
    return 0


if __name__ == "__main__":
    sys.exit(main())
