"""Reference oracles, written from the property statements, independent of the code under test (DESIGN §5).

All functions work on plain Python numbers (ints, exactly representable floats, or Fractions);
no numpy, so arithmetic on the integer / dyadic alphabets is exact and comparisons can be `==`.
"""
from __future__ import annotations

import itertools
import math
from fractions import Fraction
from functools import lru_cache

from .alphabets import popcount, proper_nonempty_subsets, proper_splits


# --------------------------------------------------------------------------- O1 partition oracle

@lru_cache(maxsize=None)
def set_partitions(s: int) -> tuple[tuple[int, ...], ...]:
    """All set partitions of the bitmask s into non-empty blocks (explicit enumeration)."""
    if s == 0:
        return ((),)
    low = s & -s
    rest = s ^ low
    out = []
    sub = rest
    while True:  # block containing the lowest element = low | sub, sub ranges over subsets of rest
        block = low | sub
        for tail in set_partitions(s ^ block):
            out.append((block,) + tail)
        if sub == 0:
            break
        sub = (sub - 1) & rest
    return tuple(out)


def o1_lower(v, known: int, n: int):
    """lower*(S) = best total of a partition of S into known coalitions (None if no such partition)."""
    N = 1 << n
    low = [None] * N
    low[0] = 0
    for s in range(1, N):
        best = None
        for part in set_partitions(s):
            tot = 0
            ok = True
            for b in part:
                if not (known >> b) & 1:
                    ok = False
                    break
                tot += v[b]
            if ok and (best is None or tot > best):
                best = tot
        low[s] = best
    return low


def o1_upper(v, known: int, n: int, low):
    """upper*(S) = min over known T strictly containing S of v(T) - lower*(T \\ S); v(S) itself when S is known."""
    N = 1 << n
    full = N - 1
    up = [None] * N
    for s in range(N):
        if (known >> s) & 1:
            up[s] = v[s]
            continue
        best = None
        rest = full ^ s
        sub = rest
        while sub:
            t = s | sub
            if (known >> t) & 1:
                c = v[t] - low[sub]
                if best is None or c < best:
                    best = c
            sub = (sub - 1) & rest
        up[s] = best
    return up


def o1_bounds(v, known: int, n: int):
    low = o1_lower(v, known, n)
    up = o1_upper(v, known, n, low)
    return low, up


# --------------------------------------------------------------------------- O2 completion oracle

def superadditive(w) -> bool:
    for s in range(1, len(w)):
        ws = w[s]
        for a, b in proper_splits(s):
            if w[a] + w[b] > ws:
                return False
    return True


def o2_witnesses(v, known: int, n: int, low, up) -> str | None:
    """The extremes are attained: lower* itself is a superadditive completion; for each unknown S the
    lower-game of (K + {S}, v(S) := upper*(S)) is a superadditive completion agreeing with K."""
    N = 1 << n
    for s in range(N):
        if (known >> s) & 1 and low[s] != v[s]:
            return f"lower* disagrees with known value at {s}"
    if not superadditive(low):
        return "lower* is not superadditive"
    for s in range(N):
        if (known >> s) & 1:
            continue
        v2 = list(v)
        v2[s] = up[s]
        k2 = known | (1 << s)
        w = o1_lower(v2, k2, n)
        for t in range(N):
            if (k2 >> t) & 1 and w[t] != v2[t]:
                return f"upper witness for {s} disagrees with known value at {t}"
        if not superadditive(w):
            return f"upper witness for {s} is not superadditive"
    return None


def o2_polytope(v, known: int, n: int, low, up, slack: int = 1, limit: int = 200000):
    """Enumerate ALL integer completions in the box [lower*-slack, upper*+slack] on the unknown coalitions,
    keep the superadditive ones, return per-coordinate (min, max) and the number enumerated (None if over limit)."""
    N = 1 << n
    unknown = [s for s in range(N) if not (known >> s) & 1]
    ranges = [range(int(math.floor(low[s])) - slack, int(math.ceil(up[s])) + slack + 1) for s in unknown]
    total = 1
    for r in ranges:
        total *= len(r)
        if total > limit:
            return None
    w = list(v)
    mins = {s: None for s in unknown}
    maxs = {s: None for s in unknown}
    count = 0
    for combo in itertools.product(*ranges):
        for s, x in zip(unknown, combo):
            w[s] = x
        count += 1
        if superadditive(w):
            for s, x in zip(unknown, combo):
                if mins[s] is None or x < mins[s]:
                    mins[s] = x
                if maxs[s] is None or x > maxs[s]:
                    maxs[s] = x
    return mins, maxs, count


# --------------------------------------------------------------------------- O3 orderings oracle

@lru_cache(maxsize=None)
def shapley_counts(n: int) -> tuple[tuple[int, ...], ...]:
    """c[i][S] = signed number of orderings in which S appears as 'predecessors of i plus i' minus
    the number in which S appears as 'predecessors of i'; Shapley_i(v) = sum_S c[i][S] v(S) / n!."""
    N = 1 << n
    c = [[0] * N for _ in range(n)]
    for order in itertools.permutations(range(n)):
        s = 0
        for i in order:
            c[i][s] -= 1
            s |= 1 << i
            c[i][s] += 1
    return tuple(tuple(r) for r in c)


def shapley_by_orderings(v, n: int) -> list[Fraction]:
    """Average marginal contribution over all n! orderings, exact."""
    c = shapley_counts(n)
    nf = math.factorial(n)
    return [sum(Fraction(v[s]) * c[i][s] for s in range(1 << n) if c[i][s]) / nf for i in range(n)]


# --------------------------------------------------------------------------- O4 gap oracle

def gap_exploitability(low, up, n: int) -> Fraction:
    return sum((Fraction(up[s]) - Fraction(low[s])) / math.comb(n, popcount(s)) for s in range(1 << n))


def gap_l1(low, up) -> Fraction:
    return sum(abs(Fraction(u) - Fraction(l)) for l, u in zip(low, up))


def gap_linf(low, up) -> Fraction:
    return max(abs(Fraction(u) - Fraction(l)) for l, u in zip(low, up))


def gap_l2sq(low, up) -> Fraction:
    return sum((Fraction(u) - Fraction(l)) ** 2 for l, u in zip(low, up))


# --------------------------------------------------------------------------- O7 exact normalisation

def normalise_exact(v, n: int):
    """(surplus s*, scale sigma, [w*(S)]) in exact rational arithmetic on the given (float) inputs."""
    fv = [Fraction(x) for x in v]
    sing = [fv[1 << i] for i in range(n)]
    w = [fv[s] - sum(sing[i] for i in range(n) if s >> i & 1) for s in range(1 << n)]
    surplus = w[-1]
    sigma = abs(fv[-1]) + sum(abs(x) for x in sing)
    return surplus, sigma, w


# --------------------------------------------------------------------------- class predicates (exact)

def superadditive_excess(v) -> Fraction:
    """max over splits of v(A)+v(B)-v(A u B) (<= 0 iff superadditive), exact."""
    fv = [Fraction(x) for x in v]
    worst = Fraction(0)
    first = True
    for s in range(1, len(v)):
        for a, b in proper_splits(s):
            e = fv[a] + fv[b] - fv[s]
            if first or e > worst:
                worst = e
                first = False
    return worst


def monotone_nonincreasing(v) -> bool:
    for s in range(1, len(v)):
        for a in proper_nonempty_subsets(s):
            if v[a] < v[s]:
                return False
    return True
