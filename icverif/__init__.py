"""Model-checking machinery for furadnik/IncompleteCooperative (see /verif/DESIGN.md)."""
import os
import sys

REPO = os.environ.get("ICVERIF_REPO", "/repo")
VERIF = os.path.dirname(os.path.dirname(os.path.abspath(__file__)))


def use_repo() -> None:
    """Make `import incomplete_cooperative` resolve to the working tree of /repo (G5)."""
    if not sys.path or sys.path[0] != REPO:
        if REPO in sys.path:
            sys.path.remove(REPO)
        sys.path.insert(0, REPO)


use_repo()
