"""E2 — deterministic process pool for the `schedules` quantifier (DESIGN §3 E2).

Drop-in for `multiprocessing.Pool` as the package uses it (`with Pool(processes=p) as pool: pool.starmap(f, it)`):
  * the task list is cut into chunks by CPython's own rule (divmod(len, 4*p), Pool._get_tasks);
  * every chunk is pickled AS ONE UNIT (func, batch) - objects shared inside a chunk stay shared, every chunk gets its own
    copies - and executed in a REAL forked worker process, forked when the pool is constructed;
  * which worker executes which chunk is decided by the harness (a schedule = assignment chunk -> worker); every worker
    executes its chunks in increasing index order, the only order a real worker can observe.
Since workers share nothing after the fork, the result of a chunk depends only on the chunks the same worker executed
before it; executing the chunks one after the other under a given assignment therefore reproduces every outcome a
concurrent run with that assignment can have.
"""
from __future__ import annotations

import itertools
import multiprocessing
import os
import pickle
import traceback
from multiprocessing.pool import Pool as _RealPool
from typing import Any, Callable


class Schedule:
    """The harness-chosen environment answer for one pool use: assignment of chunk index -> worker index."""

    def __init__(self, assign: Callable[[int, int], list[int]] | None = None, name: str = "round-robin", max_workers: int = 4) -> None:
        self.assign = assign or (lambda m, p: [i % p for i in range(m)])
        self.name = name
        self.max_workers = max_workers     # how many workers are forked in the pool constructor (like the real pool does for all p)
        # order in which finished chunks are handed back by the *unordered* pool APIs: a permutation of the chunk indices that
        # keeps the chunks of one worker in index order. Default: workers finish in REVERSE order (worker p-1 first), which is
        # the completion order most unlike the submission order.
        self.completion = None
        self.log: list[dict] = []      # one entry per starmap call: processes, chunk sizes, assignment used


CURRENT = Schedule()


def set_schedule(s: Schedule) -> None:
    global CURRENT
    CURRENT = s


def chunking(n_tasks: int, processes: int) -> list[int]:
    """Chunk sizes the real pool would use for n_tasks tasks on `processes` workers."""
    if n_tasks == 0:
        return []
    chunksize, extra = divmod(n_tasks, processes * 4)
    if extra:
        chunksize += 1
    sizes = []
    left = n_tasks
    while left > 0:
        sizes.append(min(chunksize, left))
        left -= chunksize
    return sizes


def _worker(conn) -> None:
    try:
        while True:
            msg = conn.recv_bytes()
            if msg == b"STOP":
                break
            try:
                func, batch = pickle.loads(msg)
                res = [func(*args) for args in batch]
                out = pickle.dumps(("ok", res))
            except BaseException as e:  # noqa: BLE001 - report to the parent like the real pool does
                try:
                    out = pickle.dumps(("err", e, traceback.format_exc()))
                except Exception:  # noqa: BLE001
                    out = pickle.dumps(("err", RuntimeError(repr(e)), traceback.format_exc()))
            conn.send_bytes(out)
    finally:
        conn.close()
        os._exit(0)


class DetPool:
    def __init__(self, processes: int | None = None, *args: Any, **kwargs: Any) -> None:
        self.processes = processes or os.cpu_count() or 1
        if self.processes < 1:
            raise ValueError("Number of processes must be at least 1")
        self._ctx = multiprocessing.get_context("fork")
        self._workers: dict[int, tuple] = {}
        self._closed = False
        # the real pool forks all its workers in the constructor; the schedule says how many distinct workers it will use,
        # exactly those are forked here (idle workers are unobservable)
        self._eager = min(self.processes, max(1, CURRENT.max_workers))
        for w in range(self._eager):
            self._spawn(w)

    def _spawn(self, w: int) -> None:
        parent, child = self._ctx.Pipe(duplex=True)
        proc = self._ctx.Process(target=_worker, args=(child,), daemon=True)
        proc.start()
        child.close()
        self._workers[w] = (proc, parent)

    def __enter__(self) -> "DetPool":
        return self

    def __exit__(self, *exc: Any) -> None:
        self.terminate()

    def close(self) -> None:
        self.terminate()

    def join(self) -> None:
        pass

    def terminate(self) -> None:
        if self._closed:
            return
        self._closed = True
        for proc, conn in self._workers.values():
            try:
                conn.send_bytes(b"STOP")
            except Exception:  # noqa: BLE001
                pass
        for proc, conn in self._workers.values():
            proc.join(timeout=5)
            if proc.is_alive():
                proc.kill()
            conn.close()
        self._workers = {}

    def _run(self, func: Callable, iterable, star: bool, chunksize: int | None = None) -> list:
        if self._closed:
            raise ValueError("Pool not running")
        items = list(iterable)
        if not star:
            items = [(x,) for x in items]
        if chunksize is None:
            chunksize, extra = divmod(len(items), self.processes * 4)
            if extra:
                chunksize += 1
        if len(items) == 0:
            chunksize = 0
        chunks = [batch for _f, batch in _RealPool._get_tasks(func, items, chunksize)] if items else []
        assignment = CURRENT.assign(len(chunks), self.processes)
        if len(assignment) != len(chunks) or any(not (0 <= w < self.processes) for w in assignment):
            raise RuntimeError(f"schedule {CURRENT.name} gave an invalid assignment {assignment} for {len(chunks)} chunks on {self.processes} workers")
        CURRENT.log.append({"processes": self.processes, "chunk_sizes": [len(c) for c in chunks], "assignment": list(assignment)})
        results: list = []
        for batch, w in zip(chunks, assignment):
            if w not in self._workers:
                # a worker beyond the eagerly forked ones: forked now; it has executed nothing, and the parent has not
                # run library code since the constructor (starmap is called right after it), so its state is the same
                self._spawn(w)
            proc, conn = self._workers[w]
            conn.send_bytes(pickle.dumps((func, batch)))     # one pickle per chunk, like the real pool's task
            status, *payload = pickle.loads(conn.recv_bytes())
            if status == "err":
                self.terminate()
                exc = payload[0]
                if isinstance(exc, BaseException):
                    raise exc
                raise RuntimeError(str(payload))
            results.extend(payload[0])
        return results

    def starmap(self, func: Callable, iterable, chunksize: int | None = None) -> list:
        return self._run(func, iterable, True, chunksize)

    def map(self, func: Callable, iterable, chunksize: int | None = None) -> list:
        return self._run(func, iterable, False, chunksize)

    # -- the rest of the Pool API, so that a library change to another entry point is still explored (not a harness error)
    def imap(self, func: Callable, iterable, chunksize: int = 1):
        return iter(self._run(func, iterable, False, chunksize))

    def imap_unordered(self, func: Callable, iterable, chunksize: int = 1):
        """Results are handed back chunk by chunk in COMPLETION order, which the schedule owns."""
        items = list(iterable)
        res = self._run(func, items, False, chunksize)
        entry = CURRENT.log[-1]
        sizes, assignment = entry["chunk_sizes"], entry["assignment"]
        order = completion_order(assignment, CURRENT.completion)
        entry["completion"] = order
        starts = [sum(sizes[:i]) for i in range(len(sizes))]
        out = []
        for c in order:
            out.extend(res[starts[c]:starts[c] + sizes[c]])
        return iter(out)

    def apply(self, func: Callable, args=(), kwds=None):
        return self._run(_Apply(func, kwds or {}), [tuple(args)], True, 1)[0]

    def apply_async(self, func: Callable, args=(), kwds=None, callback=None, error_callback=None):
        return _Result([self.apply(func, args, kwds)], single=True, callback=callback)

    def map_async(self, func: Callable, iterable, chunksize: int | None = None, callback=None, error_callback=None):
        return _Result(self._run(func, iterable, False, chunksize), callback=callback)

    def starmap_async(self, func: Callable, iterable, chunksize: int | None = None, callback=None, error_callback=None):
        return _Result(self._run(func, iterable, True, chunksize), callback=callback)


class _Apply:
    def __init__(self, func, kwds) -> None:
        self.func, self.kwds = func, kwds

    def __call__(self, *args):
        return self.func(*args, **self.kwds)


class _Result:
    def __init__(self, value, single: bool = False, callback=None) -> None:
        self._value = value[0] if single else value
        if callback is not None:
            callback(self._value)

    def get(self, timeout=None):
        return self._value

    def wait(self, timeout=None) -> None:
        return None

    def ready(self) -> bool:
        return True

    def successful(self) -> bool:
        return True


def completion_order(assignment: list[int], chooser=None) -> list[int]:
    """A completion order of the chunks compatible with 'each worker finishes its own chunks in index order'."""
    if chooser is not None:
        return list(chooser(assignment))
    workers = sorted(set(assignment), reverse=True)
    return [i for w in workers for i, a in enumerate(assignment) if a == w]


# ----------------------------------------------------------------------------- schedule enumeration

def set_partitions_assignments(m: int, max_blocks: int):
    """All assignments of m chunks to workers up to renaming of workers (= set partitions into <= max_blocks blocks),
    as restricted-growth strings."""
    def rec(prefix, used):
        if len(prefix) == m:
            yield list(prefix)
            return
        for w in range(min(used + 1, max_blocks)):
            yield from rec(prefix + [w], max(used, w + 1))
    if m == 0:
        yield []
        return
    yield from rec([0], 1)


def schedules_for(m: int, p: int, full_up_to: int = 5, deviation: int = 1):
    """Schedules explored for m chunks on p workers: every set partition when m <= full_up_to; otherwise round-robin,
    all-on-one-worker, one-worker-per-chunk (if p >= m) and every assignment that differs from round-robin in <= `deviation` placements."""
    out = []
    seen = set()

    def add(a, name):
        # canonical form up to worker renaming
        ren, canon = {}, []
        for w in a:
            ren.setdefault(w, len(ren))
            canon.append(ren[w])
        t = tuple(canon)
        if t not in seen:
            seen.add(t)
            out.append((name, list(a)))
    if m <= full_up_to:
        for a in set_partitions_assignments(m, min(p, m)):
            add(a, "partition")
        return out
    rr = [i % p for i in range(m)]
    add(rr, "round-robin")
    add([0] * m, "all-on-one")
    if p >= m:
        add(list(range(m)), "one-per-chunk")
    if deviation >= 1 and p > 1:
        for i in range(m):
            for w in range(min(p, m)):
                if w != rr[i]:
                    a = list(rr)
                    a[i] = w
                    add(a, "deviation-1")
    return out


class patched:
    """Context manager: replace `Pool` in the given modules by DetPool and install a schedule."""

    def __init__(self, modules, schedule: Schedule) -> None:
        self.modules, self.schedule = modules, schedule
        self.saved: list = []

    def __enter__(self):
        for m in self.modules:
            self.saved.append((m, m.Pool))
            m.Pool = DetPool
        set_schedule(self.schedule)
        return self.schedule

    def __exit__(self, *exc):
        for m, orig in self.saved:
            m.Pool = orig
        set_schedule(Schedule())
        return False


def fixed(assignment: list[int], name: str = "fixed") -> Schedule:
    return Schedule(lambda m, p, a=tuple(assignment): list(a[:m]) if len(a) >= m else [i % p for i in range(m)], name,
                    max_workers=(max(assignment) + 1) if assignment else 1)
