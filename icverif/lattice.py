"""E1 for the knowledge lattice of one hidden game: drives the REAL IncompleteCooperativeGame and bound
computers through reveal / un-reveal / bulk-reset / compute operations (DESIGN §3 E1).

Three exploration modes, all over public operations of the real object:

  fresh  – for every knowledge set K: a fresh object, set_known_values(K), compute_bounds()  -> canonical table T[K]
  euler  – ONE long-lived object walks the knowledge hypercube so that every edge is traversed once in each
           direction (reveal+compute going up, un-reveal+compute coming back), no restore involved
  dirty  – breadth-first search from every clean state over sequences of <= d non-compute operations followed by
           compute (states restored with the public copy()); de-duplicated on the digest of the whole table

A checker object receives every clean state and every traversed edge.
"""
from __future__ import annotations

from typing import Any, Callable, NamedTuple

import numpy as np

from . import use_repo
from .alphabets import explorable_ids, kmask, kmask_ids, minimal_ids
from .core import HarnessError, Stats
from .digest import deep_digest

use_repo()

_COAL: dict[int, Any] = {}


def coal(s: int):
    c = _COAL.get(s)
    if c is None:
        from incomplete_cooperative.coalitions import Coalition
        c = _COAL[s] = Coalition(int(s))
    return c


def computer(name: str):
    from incomplete_cooperative.bounds import BOUNDS
    if name.startswith("sam_apx_") and name not in BOUNDS:
        from functools import partial

        from incomplete_cooperative.bounds import compute_bounds_superadditive_monotone_approx_cached as f
        return partial(f, repetitions=int(name.rsplit("_", 1)[1]))
    return BOUNDS[name]


def new_game(n: int, comp: str):
    from incomplete_cooperative.game import IncompleteCooperativeGame
    return IncompleteCooperativeGame(n, computer(comp))


class Tab(NamedTuple):
    k: int               # knowledge bitmask over coalition ids
    lo: np.ndarray
    up: np.ndarray
    key: bytes           # digest of the complete observable table (-0.0 folded into +0.0)


def read(g) -> Tab:
    """Observe the complete table through public getters only."""
    known = np.asarray(g.are_values_known())
    lo = np.array(g.get_lower_bounds(), dtype=np.float64) + 0.0
    up = np.array(g.get_upper_bounds(), dtype=np.float64) + 0.0
    k = 0
    for s in np.flatnonzero(known):
        k |= 1 << int(s)
    return Tab(k, lo, up, known.tobytes() + lo.tobytes() + up.tobytes())


BAD_VALUE = "not a number"


class BadCallAccepted(Exception):
    """The library did not reject the deliberately invalid call: the harness has no model for what it did instead."""


def rejects_bad_values(n: int, comp: str) -> bool:
    g = new_game(n, comp)
    try:
        g.reveal_value(BAD_VALUE, coal((1 << n) - 2))
    except (ValueError, TypeError):
        return True
    except Exception:  # noqa: BLE001
        return False
    return False


def apply_op(g, v, op, v2=None) -> None:
    """Execute one public operation. op = ("reveal", s) | ("unreveal", s) | ("reset", kmask) | ("compute",) |
    ("set", s) | ("unset", s) | ("reveal_alt", s) | ("set_alt", s)  (the *_alt forms use the alternative value v2[s])."""
    kind = op[0]
    if kind == "reveal_alt":
        g.reveal_value(v2[op[1]], coal(op[1]))
        return
    if kind == "set_alt":
        g.set_value(v2[op[1]], coal(op[1]))
        return
    if kind == "reset_alt":      # ("reset_alt", kmask, altmask): bulk reset with a mix of true and alternative values
        ids = kmask_ids(op[1])
        g.set_known_values([(v2 if op[2] >> s & 1 else v)[s] for s in ids], [coal(s) for s in ids])
        return
    if kind == "observe":        # read-only public protocol: nothing here may change the object
        repr(g)
        str(g)
        f"{g}"
        g.copy()
        _ = g == g
        _ = -g
        _ = g.full
        for getter in (g.get_lower_bounds, g.get_upper_bounds, g.get_intervals, g.are_values_known, g.get_known_values):
            getter()
        return
    if kind == "scribble":       # overwrite the bounds of every unknown coalition through the public bulk setters
        N = 1 << g.number_of_players
        g.set_lower_bounds(np.full(N, -7.5))
        g.set_upper_bounds(np.full(N, 9.25))
        return
    if kind in ("bad_reveal", "bad_set"):
        # a call the library rejects (a value no float cell can hold); the caller catches the exception and keeps using the object
        try:
            (g.reveal_value if kind == "bad_reveal" else g.set_value)(BAD_VALUE, coal(op[1]))
        except (ValueError, TypeError):
            return
        raise BadCallAccepted(f"{kind}: the library accepted {BAD_VALUE!r} as a coalition value")
    if kind == "compute":
        g.compute_bounds()
    elif kind == "reveal":
        g.reveal_value(v[op[1]], coal(op[1]))
    elif kind == "unreveal":
        g.unreveal_value(coal(op[1]))
    elif kind == "reset":
        ids = kmask_ids(op[1])
        g.set_known_values([v[s] for s in ids], [coal(s) for s in ids])
    elif kind == "set":          # set_value on an unknown or known coalition (true value)
        g.set_value(v[op[1]], coal(op[1]))
    elif kind == "unset":
        g.unset_value(coal(op[1]))
    else:
        raise HarnessError(f"unknown op {op}")


def run_history(n: int, comp: str, v, history, v2=None) -> Any:
    """Fresh real object, public operations only (used for replays and for trace validation)."""
    g = new_game(n, comp)
    for op in history:
        apply_op(g, v, tuple(op), v2)
    return g


class Checker:
    """Base class: override clean() / edge(); return None or a violation message.

    `live` is the real game object in the state being checked (set by the explorer before clean())."""

    live: Any = None

    def clean(self, K: int, tab: Tab, how: str) -> str | None:  # noqa: ARG002
        return None

    def edge(self, K0: int, tab0: Tab, S: int, K1: int, tab1: Tab, how: str) -> str | None:  # noqa: ARG002
        return None

    def recheck(self, K: int, tab: Tab, history) -> str | None:
        """Re-evaluation of a state reached by `history` on a fresh object (shrinking / replay)."""
        return self.clean(K, tab, "replay")


class LatticeRun:
    def __init__(self, n: int, v, comp: str, checker: Checker, stats: Stats, tag: str = "",
                 base_ids: tuple | None = None, explor: tuple | None = None) -> None:
        self.n, self.v, self.comp, self.checker, self.stats, self.tag = n, tuple(v), comp, checker, stats, tag
        self.base = kmask(base_ids if base_ids is not None else minimal_ids(n))
        self.ex = tuple(explor if explor is not None else explorable_ids(n))
        self.T: dict[int, Tab] = {}
        self.T2: dict[tuple, Tab] = {}
        self.bad_calls = None    # dirty runs contain calls the library rejects (decided by a probe on a scratch object)
        self.scribble = True     # dirty runs may overwrite the stored bounds through the public bulk bound setters
        self.alt_ops = True      # histories use the *_alt operations whenever v2 is set
        self.v2 = None           # optional alternative values: histories may re-reveal a coalition with a DIFFERENT value
        self.fresh_obj: dict[int, Any] = {}
        self.dead = False        # stop after the first violations of this unit (keeps broken trees fast)

    # -- helpers
    def doc(self, history, **kw) -> dict:
        d = {"engine": "lattice", "n": self.n, "computer": self.comp, "values": list(self.v), "tag": self.tag,
             "history": [list(op) for op in history]}
        if self.v2 is not None:
            d["values_alt"] = list(self.v2)
        d.update(kw)
        return d

    def _viol(self, msg: str, history, **kw) -> None:
        self.stats.violation(f"[{self.comp} n={self.n} {self.tag}] {msg}", **self.doc(history, **kw))
        if self.stats.nviol >= 3:
            self.dead = True

    def _call(self, what: str, history, fn, *a) -> bool:
        try:
            if fn is apply_op and self.v2 is not None:
                fn(*a, self.v2)
            else:
                fn(*a)
            return True
        except HarnessError:
            raise
        except Exception as e:  # noqa: BLE001 - a legal public operation raised
            self._viol(f"{what} raised {type(e).__name__}: {e}", history)
            self.dead = True
            return False

    def all_K(self):
        ex = self.ex
        for m in range(1 << len(ex)):
            k = self.base
            for j, s in enumerate(ex):
                if m >> j & 1:
                    k |= 1 << s
            yield k

    # -- mode 1: canonical tables on fresh objects
    def fresh(self, Ks=None, keep_objects: bool = False) -> None:
        for K in (Ks if Ks is not None else self.all_K()):
            if self.dead:
                return
            hist = [("reset", K), ("compute",)]
            g = new_game(self.n, self.comp)
            if not self._call("set_known_values", hist[:1], apply_op, g, self.v, hist[0]):
                return
            if not self._call("compute_bounds", hist, apply_op, g, self.v, hist[1]):
                return
            tab = read(g)
            self.T[K] = tab
            if keep_objects:
                self.fresh_obj[K] = g
            self.stats.states += 1
            self.stats.transitions += 2
            self.stats.traces += 1
            self.stats.outcomes.add(hash(tab.key))
            if tab.k != K:
                self._viol(f"knowledge after set_known_values({kmask_ids(K)}) is {kmask_ids(tab.k)}", hist)
                continue
            self.checker.live = g
            msg = self.checker.clean(K, tab, "fresh")
            self.stats.evals += 1
            if msg:
                self._viol(msg, hist, K=kmask_ids(K))

    def edges_from_tables(self) -> None:
        """Every reveal edge (K, K+{S}) of the lattice, judged on the canonical tables obtained by fresh()."""
        for K, t0 in self.T.items():
            if self.dead:
                return
            for s in self.ex:
                if K >> s & 1:
                    continue
                t1 = self.T.get(K | 1 << s)
                if t1 is None:
                    continue
                self.stats.transitions += 1
                self.stats.evals += 1
                msg = self.checker.edge(K, t0, s, K | 1 << s, t1, "tables")
                if msg:
                    self._viol(msg, [("reset", K), ("compute",), ("reveal", s), ("compute",)], K=kmask_ids(K), S=s)

    def canonical(self, K: int) -> Tab | None:
        t = self.T.get(K)
        if t is None:
            g = new_game(self.n, self.comp)
            try:
                apply_op(g, self.v, ("reset", K))
                apply_op(g, self.v, ("compute",))
            except Exception:  # noqa: BLE001 - reported by whichever mode is exploring
                return None
            t = self.T[K] = read(g)
        return t

    # -- mode 2: Euler walk on one long-lived object
    def euler(self, compare_canonical: bool = True) -> None:
        """DFS through the hypercube; every edge is traversed up (reveal) and down (un-reveal) exactly once."""
        if self.dead:
            return
        g = new_game(self.n, self.comp)
        hist: list[tuple] = [("reset", self.base), ("compute",)]
        for op in hist:
            if not self._call(op[0], hist, apply_op, g, self.v, op):
                return
        visited = {self.base}
        cur = read(g)
        self.checker.live = g
        self._euler_check_clean(self.base, cur, hist, compare_canonical)
        stack: list[tuple[int, int]] = []   # (K, next index into ex)
        K, idx = self.base, 0
        ex = self.ex
        while not self.dead:
            if idx < len(ex):
                s = ex[idx]
                idx += 1
                if K >> s & 1:
                    continue
                K1 = K | 1 << s
                # go up
                hist.append(("reveal", s))
                hist.append(("compute",))
                if not self._call("reveal_value", hist[:-1], apply_op, g, self.v, hist[-2]):
                    return
                if not self._call("compute_bounds", hist, apply_op, g, self.v, hist[-1]):
                    return
                t1 = read(g)
                self.stats.transitions += 2
                self._euler_check_clean(K1, t1, hist, compare_canonical)
                msg = self.checker.edge(K, cur, s, K1, t1, "euler-up")
                self.stats.evals += 1
                if msg:
                    self._viol(msg, self._shrink_edge(K, ("reveal", s), hist), K=kmask_ids(K), S=s)
                if K1 not in visited:
                    visited.add(K1)
                    stack.append((K, idx))
                    K, idx, cur = K1, 0, t1
                    continue
                # come straight back
                if not self._down(g, hist, s, K1, t1, K, compare_canonical):
                    return
                cur = read(g)
            else:
                if not stack:
                    break
                K0, idx0 = stack.pop()
                s = ex[idx0 - 1]
                if not self._down(g, hist, s, K, cur, K0, compare_canonical):
                    return
                K, idx, cur = K0, idx0, read(g)
        self.stats.count("euler_nodes", len(visited))

    def _down(self, g, hist, s, K1, t1, K0, compare_canonical) -> bool:
        hist.append(("unreveal", s))
        hist.append(("compute",))
        if not self._call("unreveal_value", hist[:-1], apply_op, g, self.v, hist[-2]):
            return False
        if not self._call("compute_bounds", hist, apply_op, g, self.v, hist[-1]):
            return False
        t0 = read(g)
        self.stats.transitions += 2
        self._euler_check_clean(K0, t0, hist, compare_canonical)
        msg = self.checker.edge(K0, t0, s, K1, t1, "euler-down")
        self.stats.evals += 1
        if msg:
            self._viol(msg, self._shrink_edge(K1, ("unreveal", s), hist), K=kmask_ids(K1), S=s)
        return True

    def _euler_check_clean(self, K, tab, hist, compare_canonical) -> None:
        self.stats.states += 1
        self.stats.outcomes.add(hash(tab.key))
        if tab.k != K:
            self._viol(f"knowledge after walk is {kmask_ids(tab.k)}, expected {kmask_ids(K)}", list(hist))
            return
        msg = self.checker.clean(K, tab, "euler")
        self.stats.evals += 1
        if msg:
            self._viol(msg, self._shrink_state(K, hist, lambda t, h: self.checker.recheck(K, t, h)), K=kmask_ids(K))
        if compare_canonical:
            c = self.canonical(K)
            if c is not None and c.key != tab.key:
                self._viol(f"path dependence: table at K={kmask_ids(K)} after a walk differs from the table of a fresh object"
                           f" (walk lower={tab.lo.tolist()} upper={tab.up.tolist()}; fresh lower={c.lo.tolist()} upper={c.up.tolist()})",
                           self._shrink_state(K, hist, lambda t, h: "differs" if t.key != c.key else None),
                           K=kmask_ids(K), expect_canonical=True)

    def _shrink_state(self, K, hist, bad: Callable[[Tab], Any]):
        """Shortest suffix of the walk that, started from a fresh canonical state, still shows the problem."""
        ops = [h for h in hist]
        n_ops = len(ops)
        for back in (1, 2, 3):
            # find the knowledge set `back` moves earlier by undoing moves
            k = K
            i = n_ops
            moves = []
            while i >= 2 and len(moves) < back and ops[i - 1][0] == "compute" and ops[i - 2][0] in ("reveal", "unreveal"):
                mv = ops[i - 2]
                moves.append(mv)
                k = k & ~(1 << mv[1]) if mv[0] == "reveal" else k | (1 << mv[1])
                i -= 2
            if len(moves) < back:
                break
            short = [("reset", k), ("compute",)]
            for mv in reversed(moves):
                short += [mv, ("compute",)]
            try:
                t = read(run_history(self.n, self.comp, self.v, short))
            except Exception:  # noqa: BLE001
                continue
            if t.k == K and bad(t, short):
                return short
        return list(ops)

    def _shrink_edge(self, K_from, move, hist):
        short = [("reset", K_from), ("compute",), move, ("compute",)]
        return short if len(hist) > len(short) else list(hist)

    # -- mode 3: dirty-run BFS
    def dirty(self, d: int, Ks=None, resets: bool = True, extra_ops: bool = False, prelife: bool = False) -> None:
        """From every clean state: every sequence of 1..d non-compute operations, then compute.

        prelife=True: the object is not new. It first served ANOTHER game (values v2, minimal knowledge, bounds computed), was
        then bulk-reset to this game's values on K, and the run starts there with NO compute in between: whatever the
        previous life left in the object (stale bounds of unknown rows, memo) is still in it when the first operation arrives.

        A state is the whole real object: it is snapshotted with copy.deepcopy (every instance attribute, so memoised
        results or dirty flags the object keeps outside its table travel along), NOT with the public copy(), which
        builds a new object and would silently drop such state. G6: for every root and depth the first sequence is also
        executed from scratch on one fresh object with public operations only and must give the same table.
        The table after the closing compute must be the canonical table of the knowledge reached (checker.clean +
        comparison with T[K]); sequences are de-duplicated on the digest of the dirty table they produce."""
        if self.dead:
            return
        import copy as _copy
        full = self.base | kmask(self.ex)
        for K in (Ks if Ks is not None else list(self.all_K())):
            if self.dead:
                return
            h0 = [("reset", K), ("compute",)] if not prelife else [("reset_alt", self.base, self.base), ("compute",), ("reset", K)]
            root = new_game(self.n, self.comp)
            ok = True
            for i, op0 in enumerate(h0):
                ok = ok and self._call(op0[0], h0[:i + 1], apply_op, root, self.v, op0)
            if not ok:
                return
            t0 = read(root)
            if not prelife:
                # idempotence of compute on a clean state (same object)
                g2 = _copy.deepcopy(root)
                h = h0 + [("compute",)]
                if not self._call("compute_bounds", h, apply_op, g2, self.v, ("compute",)):
                    return
                self.stats.transitions += 1
                if read(g2).key != t0.key:
                    self._viol("compute_bounds is not idempotent", h, K=kmask_ids(K))
            frontier = [(root, (K | 1, 0), list(h0))]
            seen = {(t0.key, repr(deep_digest({a: b for a, b in vars(root).items() if a != "_values"})))}
            for depth in range(1, d + 1):
                nxt = []
                validated = False
                for obj, (k, alt), hist in frontier:
                    for op in self._enabled(k, full, resets, extra_ops):
                        if self.dead:
                            return
                        g = _copy.deepcopy(obj)
                        h1 = hist + [op]
                        if not self._call(op[0], h1, apply_op, g, self.v, op):
                            return
                        td = read(g)
                        self.stats.transitions += 1
                        # de-duplicate on the table AND on everything else the object carries (hidden memo, flags ...)
                        dkey = (td.key, repr(deep_digest({a: b for a, b in vars(g).items() if a != "_values"})))
                        if op[0] == "observe":
                            if td.key != read(obj).key:
                                self._viol("a read-only public operation (repr / str / copy / == / negation / getters) changed the table", h1, K=kmask_ids(k))
                                continue
                        elif dkey in seen:
                            continue
                        seen.add(dkey)
                        self.stats.states += 1
                        k_expected = self._model_k(k, op)
                        alt1 = self._model_alt(alt, op)
                        if depth < d:
                            nxt.append((g, (k_expected, alt1), h1))
                            gc = _copy.deepcopy(g)
                        else:
                            gc = g
                        # close the dirty run
                        h2 = h1 + [("compute",)]
                        if not self._call("compute_bounds", h2, apply_op, gc, self.v, ("compute",)):
                            return
                        tc = read(gc)
                        self.stats.transitions += 1
                        self.stats.outcomes.add(hash(tc.key))
                        if not validated:          # G6: the same history on one fresh object, public operations only
                            validated = True
                            try:
                                tf = read(run_history(self.n, self.comp, self.v, h2, self.v2))
                            except Exception as e:  # noqa: BLE001
                                self._viol(f"history raised {type(e).__name__}: {e} on a fresh object", h2)
                                return
                            self.stats.traces += 1
                            if tf.key != tc.key:
                                raise HarnessError(f"snapshot/restore diverges from a from-scratch replay of {h2}")
                        if tc.k != k_expected or td.k != k_expected:
                            self._viol(f"knowledge after {op} is {kmask_ids(tc.k)}, expected {kmask_ids(k_expected)}", h2)
                            continue
                        self.checker.live = gc
                        msg = self.checker.clean(tc.k, tc, "dirty") if not alt1 else None
                        self.stats.evals += 1
                        if msg:
                            self._viol(msg, h2, K=kmask_ids(tc.k))
                        c = self.canonical(tc.k) if not alt1 else self.canonical_alt(tc.k, alt1)
                        if c is not None and c.key != tc.key:
                            self._viol(f"path dependence: table at K={kmask_ids(tc.k)} after a dirty run differs from a fresh object's"
                                       f" (got lower={tc.lo.tolist()} upper={tc.up.tolist()}; fresh lower={c.lo.tolist()} upper={c.up.tolist()})",
                                       h2, K=kmask_ids(tc.k), expect_canonical=True)
                frontier = nxt

    def canonical_alt(self, K: int, alt: int) -> Tab | None:
        """Table of a fresh object whose known values are v on K, except v2 on the coalitions in `alt`."""
        t = self.T2.get((K, alt))
        if t is None:
            g = new_game(self.n, self.comp)
            try:
                apply_op(g, self.v, ("reset_alt", K, alt), self.v2)
                apply_op(g, self.v, ("compute",))
            except Exception:  # noqa: BLE001
                return None
            t = self.T2[(K, alt)] = read(g)
        return t

    def _model_alt(self, alt: int, op) -> int:
        if op[0] in ("reveal_alt", "set_alt"):
            return alt | 1 << op[1]
        if op[0] in ("reveal", "set", "unreveal", "unset"):
            return alt & ~(1 << op[1])
        if op[0] == "reset":
            return 0
        return alt

    def _model_k(self, k: int, op) -> int:
        if op[0] in ("reveal", "set", "reveal_alt", "set_alt"):
            return k | 1 << op[1]
        if op[0] in ("unreveal", "unset"):
            return k & ~(1 << op[1])
        if op[0] == "reset":
            return op[1] | 1        # the empty coalition is always known
        return k

    def _enabled(self, k: int, full: int, resets: bool, extra_ops: bool):
        ops = []
        for s in self.ex:
            if k >> s & 1:
                ops.append(("unreveal", s))
            else:
                ops.append(("reveal", s))
        if resets:
            targets = []
            for t in (self.base, full):
                if t not in targets:
                    targets.append(t)
            for s in self.ex:
                t = (k ^ (1 << s)) | self.base
                if t not in targets:
                    targets.append(t)
            if k not in targets:
                targets.append(k)
            ops += [("reset", t) for t in targets]
        if extra_ops:
            for s in self.ex:
                ops.append(("set", s) if not k >> s & 1 else ("unset", s))
        if self.v2 is not None and self.alt_ops:
            for s in self.ex:
                ops.append(("reveal_alt", s) if not k >> s & 1 else ("set_alt", s))
        if self.scribble:
            ops.append(("scribble",))
            ops.append(("observe",))
        if self.bad_calls is None:
            self.bad_calls = rejects_bad_values(self.n, self.comp)
        if self.bad_calls:
            # rejected calls (the library raises, the caller carries on): one on the lowest unknown, one on the lowest known explorable coalition
            unk = [s for s in self.ex if not k >> s & 1]
            kn = [s for s in self.ex if k >> s & 1]
            if unk:
                ops.append(("bad_reveal", unk[0]))
            if kn:
                ops.append(("bad_set", kn[0]))
        return ops


def replay_lattice(doc: dict, make_checker: Callable[[dict], Checker]) -> tuple[bool, str]:
    """Re-execute a recorded history on a fresh real object with public operations only and re-evaluate."""
    n, comp, v = doc["n"], doc["computer"], doc["values"]
    hist = [tuple(op) for op in doc["history"]]
    lines = [f"replay: n={n} computer={comp} values={v}", f"history ({len(hist)} ops): {hist[:12]}{' ...' if len(hist) > 12 else ''}"]
    v2 = doc.get("values_alt")
    try:
        g = run_history(n, comp, v, hist, v2)
    except Exception as e:  # noqa: BLE001
        return True, "\n".join(lines + [f"operation raised {type(e).__name__}: {e}"])
    tab = read(g)
    lines.append(f"final knowledge={kmask_ids(tab.k)} lower={tab.lo.tolist()} upper={tab.up.tolist()}")
    chk = make_checker(doc)
    msg = chk.recheck(tab.k, tab, hist)
    if msg:
        return True, "\n".join(lines + [f"checker: {msg}"])
    if doc.get("expect_canonical"):
        alt = 0
        for op in hist:
            if op[0] in ("reveal_alt", "set_alt"):
                alt |= 1 << op[1]
            elif op[0] in ("reveal", "set", "unreveal", "unset"):
                alt &= ~(1 << op[1])
            elif op[0] == "reset":
                alt = 0
        c = read(run_history(n, comp, v, [("reset_alt", tab.k, alt), ("compute",)], v2))
        if c.key != tab.key:
            return True, "\n".join(lines + [f"fresh object at same knowledge: lower={c.lo.tolist()} upper={c.up.tolist()} -> differs"])
    if "S" in doc and len(hist) >= 4:
        t0 = read(run_history(n, comp, v, hist[:-2]))
        s = doc["S"]
        lo_t, hi_t = (t0, tab) if hist[-2][0] == "reveal" else (tab, t0)
        msg = chk.edge(lo_t.k, lo_t, s, hi_t.k, hi_t, "replay")
        if msg:
            return True, "\n".join(lines + [f"edge checker: {msg}"])
    return False, "\n".join(lines + ["no violation on this history"])
