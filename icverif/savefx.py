"""Shared fixtures for C19 / C20: outputs, metadata and calls into the real run.save module."""
from __future__ import annotations

import json
from argparse import Namespace
from functools import partial
from pathlib import Path

import numpy as np

from . import use_repo

use_repo()


def eval_marker(x):  # the name contains "eval": Output.metadata derives run_type from repr(func)
    return x


def make_output(kind: str, name_hint: str = ""):
    """An Output with the given matrix flavour and metadata full of non-JSON types."""
    from incomplete_cooperative.run.save import Output
    if kind == "nan1x1":
        data, actions = np.array([[np.nan]]), np.array([[np.nan]])
    elif kind == "neg2x3":
        data = np.array([[-1.5, 0.0, 1e300], [2.25, -0.0, 3.0]])
        actions = np.array([[3.0, 5.0, 6.0]])
    elif kind == "tensor":
        data = np.arange(12, dtype=float).reshape(3, 4) / 4
        actions = np.full((3, 4, 2), np.nan)
        actions[1, :, 0] = 3
        actions[2, :, 0] = 5
        actions[2, :, 1] = 6
    elif kind == "int":
        data = np.array([[7.0, 6.0], [5.0, 4.0], [0.0, 0.0]])
        actions = np.array([[3, 5], [6, 3]])
    elif kind.startswith("big"):
        r, c = {"big3k": (10, 20), "big40k": (50, 100)}[kind]
        data = (np.arange(r * c, dtype=float).reshape(r, c) + 0.123456789) / 7
        actions = np.arange((r - 1) * c, dtype=float).reshape(r - 1, c)
    else:
        raise KeyError(kind)
    ns = Namespace(func=partial(eval_marker, 1) if kind != "int" else "learn_func", model_dir=Path("/some/dir") / name_hint, seed=np.int64(7),
                   gamma=np.float64(0.5), nested={"a": [1, 2, {"b": None}], "b": {"data": [[0.5]], "a b/ü": {"x": 1}}, "sweep": {"b": {"seed": 1}, "second": {}, "new": {}}},
                   flag=True, name=name_hint, number_of_players=4)
    return Output(data, actions, ns)


def expected_entry(output) -> dict:
    """What one entry must look like after a JSON round trip: matrices as nested lists (NaN kept), metadata stringified once."""
    from incomplete_cooperative.run.save import json_serializer
    meta = json.loads(json.dumps(output.metadata, default=json_serializer))
    return {"data": np.asarray(output.data).tolist(), "actions": np.asarray(output.actions).tolist(), "metadata": meta}


def same_matrix(a, b) -> bool:
    a, b = np.asarray(a, dtype=float), np.asarray(b, dtype=float)
    return a.shape == b.shape and bool(np.array_equal(a, b, equal_nan=True))


def call_save_json(path: Path, name: str, output) -> None:
    from incomplete_cooperative.run.save import save_json
    save_json(path, name, output)
