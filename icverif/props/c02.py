"""C02 — superadditive bounds are tight: the extreme superadditive completions (DESIGN §6 C02)."""
from __future__ import annotations

from fractions import Fraction

from .. import alphabets as A
from .. import gens
from .. import oracles as O
from ..core import Run, Stats, fanout
from ..lattice import Checker, LatticeRun, Tab, replay_lattice

COMPUTERS = ("superadditive", "superadditive_cached")


class Tight(Checker):
    """Computed bounds == O1 (best partition / min over known supersets); O2 witnesses; O2 polytope enumeration."""

    def __init__(self, n: int, v, tol: float = 0.0, witnesses: bool = True, polytope_unknown: int = 0) -> None:
        self.n, self.v, self.tol = n, v, tol
        self.exact = tol == 0.0
        self.ov = list(v) if self.exact else [Fraction(x) for x in v]
        self.witnesses = witnesses
        self.polytope_unknown = polytope_unknown
        self.cache: dict[int, tuple] = {}
        self.nontrivial = set()
        self.polytopes = 0
        self.completions = 0
        self.witness_checks = 0

    def oracle(self, K: int):
        r = self.cache.get(K)
        if r is None:
            low, up = O.o1_bounds(self.ov, K, self.n)
            err = None
            if self.witnesses and self.exact:
                err = O.o2_witnesses(self.ov, K, self.n, low, up)
                self.witness_checks += 1
            poly = None
            unknown = (1 << self.n) - bin(K).count("1")
            if self.exact and 0 < unknown <= self.polytope_unknown:
                poly = O.o2_polytope(self.ov, K, self.n, low, up)
            r = self.cache[K] = (low, up, err, poly)
        return r

    def clean(self, K: int, tab: Tab, how: str) -> str | None:
        low, up, err, poly = self.oracle(K)
        if err:
            return f"ORACLE SELF-CHECK FAILED (harness): {err}"
        tol = self.tol
        for s in range(1 << self.n):
            l, u = float(tab.lo[s]), float(tab.up[s])
            if low[s] is None or up[s] is None:
                return f"ORACLE (harness): no partition / superset for coalition {s}"
            if self.exact:
                if l != low[s]:
                    return (f"coalition {s}: lower bound {l} != best partition into known coalitions {low[s]} "
                            f"(knowledge {A.kmask_ids(K)})")
                if u != up[s]:
                    return (f"coalition {s}: upper bound {u} != min over known supersets T of v(T)-lower(T\\S) = {up[s]} "
                            f"(knowledge {A.kmask_ids(K)})")
            else:
                if abs(l - float(low[s])) > tol:
                    return f"coalition {s}: lower bound {l} differs from best partition {float(low[s])} by more than {tol}"
                if abs(u - float(up[s])) > tol:
                    return f"coalition {s}: upper bound {u} differs from the superset optimum {float(up[s])} by more than {tol}"
            if up[s] != low[s]:
                self.nontrivial.add(K)
        if poly is not None:
            mins, maxs, count = poly
            self.polytopes += 1
            self.completions += count
            for s, m in mins.items():
                if m is None:
                    return f"ORACLE (harness): no superadditive integer completion found for knowledge {A.kmask_ids(K)}"
                if float(tab.lo[s]) != m or float(tab.up[s]) != maxs[s]:
                    return (f"coalition {s}: computed [{float(tab.lo[s])}, {float(tab.up[s])}] but the extremes over ALL "
                            f"{count} integer completions in the enclosing box are [{m}, {maxs[s]}] (knowledge {A.kmask_ids(K)})")
        return None


def unit(u) -> Stats:
    n, tag, v, modes, tol, poly_unknown = u
    st = Stats()
    for comp in COMPUTERS:
        chk = Tight(n, v, tol, witnesses=(n <= 4), polytope_unknown=poly_unknown)
        lr = LatticeRun(n, v, comp, chk, st, tag)
        if n <= 4:
            Ks = None
        elif n == 5:
            Ks = list(A.layered_knowledge(n, 2))
        elif "few" in modes:
            Ks = A.few_knowledge(n)
        else:
            Ks = list(A.layered_knowledge(n, 1)) + (list(A.distance2_knowledge(n)) if "pairs" in modes else [])
        lr.fresh(Ks=Ks)
        if "euler" in modes:
            lr.euler()
        if n == 3 and "dirty" in modes:
            lr.dirty(1)
        st.nontrivial += len(chk.nontrivial)
        st.count("integer_completion_polytopes", chk.polytopes)
        st.count("integer_completions_enumerated", chk.completions)
        st.count("witness_checks", chk.witness_checks)
        comp_cache = chk.cache
    if n == 3 and tag.startswith("shift#7"):
        K = A.kmask(A.minimal_ids(3)) | 1 << 3
        low, up, _, _ = comp_cache[K]
        st.sample({"n": n, "values": list(v), "K": A.kmask_ids(K), "oracle_lower": low, "oracle_upper": up})
    return st


def resolve(u):
    n, tag, v, modes, tol, pu = u
    if isinstance(v, tuple) and v and v[0] == "GEN":
        vals = gens.draw(v[1], v[2], v[3])
        return (n, tag, vals, modes, gens.float_tol(vals, n), 0)
    return u


def unit_resolved(u) -> Stats:
    return unit(resolve(u))


def units(run: Run):
    seed, quick = run.seed, run.quick
    us = []
    g3 = A.a3_sa() if quick else A.a3_sa((-2, -1, 0, 1, 2))
    for i, g in enumerate(g3):
        for tag, gv in A.with_shifts([g], 3):
            if tag == "dyadic":
                us.append((3, f"{tag}#{i}", gv, ("euler",), 0.0, 0))   # polytope enumeration is over integers
            else:
                us.append((3, f"{tag}#{i}", gv, ("euler", "dirty") if tag == "shift" else ("euler",), 0.0, 3))
        for tag, gv in A.with_scales([g], 3):
            us.append((3, f"{tag}#{i}", gv, (), 0.0, 0))
    games4 = list(enumerate(A.a4_sa_reps(seed))) if quick else list(enumerate(A.a4_sa_full()))
    for i, g in games4:
        variants = A.all_variants(g, 4)
        todo = [variants[(i + seed) % 5]] if quick else variants
        for tag, gv in todo:
            pu = 0
            if tag in ("plain", "shift"):
                if quick:
                    pu = 3 if i % 6 == seed % 6 else 2
                else:
                    pu = 4 if i % 64 == seed % 64 else 3 if i % 8 == seed % 8 else 2
            modes = ("euler",) if (i % 45 == seed % 45 and quick) or (i % 256 == seed % 256 and not quick) else ()
            us.append((4, f"{tag}#{i}", gv, modes, 0.0, pu))
    if not quick:
        for i, g in enumerate(A.a4_sa_full((0, 1, 2))):
            if i % 8 == seed % 8:
                us.append((4, f"pairs012#{i}", g, (), 0.0, 1))
    for kind in ("sq", "budget"):
        from .c01 import layered_game
        us.append((5, f"layer-{kind}", A.shifted(layered_game(5, kind), (1, -1, 2, 0, 3)), (), 0.0, 0))
    # n = 5: one game per isomorphism class of the pair graph (34), all K within Hamming distance 2 of minimal / full + size layers
    convex5 = tuple(A.popcount(s) * (A.popcount(s) - 1) // 2 for s in range(32))
    for i, g in enumerate(A.a5_pair_closure_reps()):
        if quick and i % 2 != seed % 2:
            continue
        gv = A.shifted(g, (1, -1, 2, 0, 3)) if i % 4 < 2 else tuple(a + b for a, b in zip(g, convex5))
        us.append((5, f"pairgraph#{i}", gv, (), 0.0, 0))
    for n in (7, 8):
        us.append((n, f"n{n}:budget2", A.budget_game(n, 2), ("few",), 0.0, 0))
    for n in ((6,) if quick else (6, 7)):
        for tag, gv in A.larger_n_samples(n):
            if quick and not tag.startswith(("matching-shift", "path-shift", "star+convex")):
                continue
            us.append((n, f"n{n}:{tag}", gv, ("pairs",) if (n == 6 and not quick) else (), 0.0, 0))
    width = 2 if quick else 8
    for name in gens.SA_FAMILIES:
        for n in ((3, 4) if quick else (3, 4)):
            for s in gens.seed_window(seed, width):
                if n == 4 and s != gens.seed_window(seed, width)[0]:
                    continue
                us.append((n, f"gen:{name}:{s}", ("GEN", name, n, s), (), None, 0))
    return us


def run(run: Run) -> None:
    us = units(run)
    run.rule = ("same hidden-game lattices as C01; at EVERY knowledge set the real table is compared (==) with the partition oracle O1 "
                "(explicit enumeration of all set partitions into known coalitions; min over known strict supersets), the extremes are shown "
                "attained by explicit superadditive completions (O2a), and for all K with few unknown coalitions ALL integer completions in the "
                "enclosing box are enumerated and their coordinate-wise extremes compared (O2b). non-trivial = distinct (game, computer, K) with "
                "a non-degenerate interval")
    run.bounds = {"n": [3, 4, 5, 6] if run.quick else [3, 4, 5, 6, 7], "polytope_unknown_max": 3 if run.quick else 4, "units": len(us), "computers": list(COMPUTERS)}
    run.assumptions = ["O2b enumerates integer completions only (the polytope has integral extreme coordinates here because O1 is integral); "
                       "it validates O1 against the definition, O1 then decides every (game, K, S)",
                       "float generator games: O1 in exact rationals on the float inputs, compared within the G2 tolerance"]
    us.sort(key=lambda u: (-u[0], -u[5]))
    run.add(fanout(unit_resolved, us, chunk=4))


def replay(doc: dict):
    def mk(d):
        is_gen = str(d.get("tag", "")).startswith("gen:")
        return Tight(d["n"], d["values"], gens.float_tol(d["values"], d["n"]) if is_gen else 0.0, True,
                     3 if not is_gen and all(float(x).is_integer() for x in d["values"]) else 0)
    return replay_lattice(doc, mk)
