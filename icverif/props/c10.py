"""C10 — every offered game generator runs and yields a game of its assumed class (DESIGN §6 C10).

Configuration sweep: every registry key (except 'convex') x player counts x a complete seed window x two identically
seeded calls; class membership decided in exact rational arithmetic on the returned float values.
"""
from __future__ import annotations

from fractions import Fraction

import numpy as np

from .. import alphabets as A
from .. import gens
from ..core import Run, Stats, fanout


def class_check(name: str, n: int, vals: np.ndarray) -> str | None:
    if vals.dtype != np.float64:
        return f"values have dtype {vals.dtype}, not float64"
    if vals.shape != (1 << n,):
        return f"values have shape {vals.shape}, expected ({1 << n},)"
    if not np.all(np.isfinite(vals)):
        return "values contain NaN or infinity"
    if vals[0] != 0:
        return f"v(empty) = {vals[0]}"
    fv = [Fraction(float(x)) for x in vals]
    # superadditive with the library's documented relative tolerance (excess <= 1e-9*|v(U)|, exact when v(U) = 0)
    for u in range(1, 1 << n):
        for a, b in A.proper_splits(u):
            excess = fv[a] + fv[b] - fv[u]
            if excess > 0 and excess > Fraction(1, 10 ** 9) * abs(fv[u]):
                return (f"not superadditive: v({a}) + v({b}) = {float(fv[a] + fv[b])} > v({u}) = {float(fv[u])} "
                        f"(excess {float(excess)})")
    if gens.is_sam_family(name):
        for u in range(1, 1 << n):
            for a in [0] + list(A.proper_nonempty_subsets(u)):
                if fv[a] < fv[u]:
                    return f"not monotone non-increasing: v({a}) = {float(fv[a])} < v({u}) = {float(fv[u])}"
    return None


def unit(u) -> Stats:
    name, n, seeds = u
    st = Stats()
    for seed in seeds:
        doc = {"generator": name, "n": n, "gen_seed": seed}
        try:
            g1 = gens.draw_game(name, n, seed)
            v1 = np.asarray(g1.get_values())
        except Exception as e:  # noqa: BLE001
            st.violation(f"[generator {name} n={n} seed={seed}] raised {type(e).__name__}: {e}", **doc)
            return st
        st.states += 1
        st.transitions += 1
        st.evals += 1
        if getattr(g1, "number_of_players", None) != n:
            st.violation(f"[generator {name} n={n} seed={seed}] number_of_players = {getattr(g1, 'number_of_players', None)}", **doc)
            continue
        msg = class_check(name, n, v1)
        if msg:
            st.violation(f"[generator {name} n={n} seed={seed}] {msg}; values={v1.tolist()}", **doc)
            if st.nviol >= 2:
                return st
            continue
        # a consumer may do anything with the game it received (normalise it, overwrite it): scribble over the first result
        # before asking again - a generator that hands out a shared/memoised object would now return the scribble
        v1 = np.array(v1, copy=True)
        try:
            if hasattr(g1, "set_values"):
                g1.set_values(np.arange(1 << n, dtype=np.float64))
            elif hasattr(g1, "_graph_matrix"):
                g1._graph_matrix += 1.0
        except Exception:  # noqa: BLE001 - the scribble is harness behaviour, never a verdict
            pass
        try:
            v2 = np.asarray(gens.draw_game(name, n, seed).get_values())
        except Exception as e:  # noqa: BLE001
            st.violation(f"[generator {name} n={n} seed={seed}] second call raised {type(e).__name__}: {e}", **doc)
            return st
        st.transitions += 1
        msg = class_check(name, n, v2)
        if msg:
            st.violation(f"[generator {name} n={n} seed={seed}] second call: {msg}", **doc)
            continue
        if not gens.is_unseeded(name):
            if not np.array_equal(v1, v2):
                st.violation(f"[generator {name} n={n} seed={seed}] identically seeded calls returned different games: {v1.tolist()} vs {v2.tolist()}", **doc)
                continue
        if len(set(v1.tolist())) > 2:
            st.nontrivial += 1
        st.outcomes.add(hash(v1.tobytes()))
    if n == 4 and name in ("noisy_factory", "oxs"):
        st.sample({"generator": name, "n": n, "seed": seeds[0], "values": gens.draw(name, n, seeds[0])})
    return st


def history_unit(u) -> Stats:
    """The result of a seeded call is a function of (name, n, seed) only - not of which calls were made before in the same
    process. Runs in a freshly forked process: explores every ordered pair (n_a then n_b) and an ascending / descending sweep
    of player counts for one generator, comparing with the values obtained first (in pristine module state)."""
    name, ns, seeds = u
    st = Stats()
    ref = {}
    doc = {"generator": name, "history": True}
    try:
        for n in ns:                      # ascending sweep in a pristine process: the reference
            for s in seeds:
                ref[(n, s)] = np.array(gens.draw_game(name, n, s).get_values(), copy=True)
                st.transitions += 1
        orders = [list(reversed(ns))] + [[a, b] for a in ns for b in ns if a != b]
        for order in orders:
            for n in order:
                for s in seeds:
                    v = np.asarray(gens.draw_game(name, n, s).get_values())
                    st.transitions += 1
                    st.evals += 1
                    if not np.array_equal(v, ref[(n, s)]):
                        st.violation(f"[generator {name} n={n} seed={s}] the seeded call returns a different game after the calls {order} than it did first in this "
                                     f"process: {v.tolist()} vs {ref[(n, s)].tolist()}", n=n, gen_seed=s, order=order, **doc)
                        return st
            st.states += 1
            st.nontrivial += 1
    except Exception as e:  # noqa: BLE001
        st.violation(f"[generator {name}] raised {type(e).__name__}: {e} during a call history", n=ns[0], gen_seed=seeds[0], **doc)
    return st


# generators whose construction contains a data-dependent loop / re-draw: a rare seed may take a path ordinary seeds never take
LOOPY = ("factory_cheerleader", "covg_fn_generator", "k_budget_generator", "xs2", "xs3", "xs6", "graph_ws_connected", "graph_cycle")


_SPLITS: dict = {}


def split_index(n: int):
    """(a, b, u) index arrays of all proper splits u = a + b (a < b) for n players."""
    if n not in _SPLITS:
        aa, bb, uu = [], [], []
        for u_ in range(1, 1 << n):
            for a, b in A.proper_splits(u_):
                aa.append(a)
                bb.append(b)
                uu.append(u_)
        _SPLITS[n] = (np.array(aa, dtype=np.intp), np.array(bb, dtype=np.intp), np.array(uu, dtype=np.intp))
    return _SPLITS[n]


def suspicious(n: int, vals) -> bool:
    """Float pre-screen for the long windows: some split clearly exceeds the documented tolerance, or a value is not finite. A hit is
    decided by the exact class check; a miss within rounding of the threshold is what the every-64th-seed exact check is for."""
    v = np.asarray(vals, dtype=np.float64)
    if not np.all(np.isfinite(v)):
        return True
    a, b, u_ = split_index(n)
    if not len(a):
        return False
    ex = v[a] + v[b] - v[u_]
    return bool(np.any(ex > 2e-9 * np.abs(v[u_]) + 1e-300))


def sweep_unit(u) -> Stats:
    """Determinism over a LONG seed window for one generator and player count: two identically seeded calls per seed."""
    name, n, lo, hi = u
    st = Stats()
    for seed in range(lo, hi):
        try:
            v1 = np.array(gens.draw_game(name, n, seed).get_values(), copy=True)
            v2 = np.asarray(gens.draw_game(name, n, seed).get_values())
        except Exception as e:  # noqa: BLE001
            st.violation(f"[generator {name} n={n} seed={seed}] raised {type(e).__name__}: {e}", generator=name, n=n, gen_seed=seed)
            return st
        st.states += 1
        st.transitions += 2
        st.evals += 1
        if not np.array_equal(v1, v2):
            st.violation(f"[generator {name} n={n} seed={seed}] identically seeded calls returned different games: {v1.tolist()[:12]}... vs {v2.tolist()[:12]}...",
                         generator=name, n=n, gen_seed=seed)
            return st
        if seed % 64 == 0 or suspicious(n, v1):
            msg = class_check(name, n, v1)
            if msg:
                st.violation(f"[generator {name} n={n} seed={seed}] {msg}", generator=name, n=n, gen_seed=seed)
                return st
    st.nontrivial += hi - lo
    return st


_TAIL = None


def tail_rng(seed: int, mode: str):
    """E4-style ownership of randomness: a numpy Generator whose CONTINUOUS draws (random / uniform / normal) sit at the 1e-6 or 1 - 1e-6
    quantile of their distribution - all low, all high, or alternating - while discrete draws come from the real seeded bit generator.
    Every such draw is a value the real generator can return; whole regions of the distribution that leave the class show up without
    waiting for a rare seed."""
    global _TAIL
    if _TAIL is None:
        class TailRNG(np.random.Generator):
            def __init__(self, seed, mode):
                super().__init__(np.random.PCG64(seed))
                self._mode, self._k = mode, 0

            def _q(self, size):
                lo, hi = 1e-6, 1 - 1e-6
                m = 1 if size is None else int(np.prod(size))
                if self._mode == "lo":
                    q = np.full(m, lo)
                elif self._mode == "hi":
                    q = np.full(m, hi)
                else:
                    q = np.array([lo if (self._k + i) % 2 == (self._mode == "alt1") else hi for i in range(m)])
                self._k += m
                return float(q[0]) if size is None else q.reshape(size)

            def random(self, size=None, dtype=np.float64, out=None):
                return self._q(size)

            def uniform(self, low=0.0, high=1.0, size=None):
                if size is None and (np.ndim(low) or np.ndim(high)):
                    size = np.broadcast(low, high).shape
                return low + self._q(size) * (np.asarray(high) - low)

            def normal(self, loc=0.0, scale=1.0, size=None):
                if size is None and (np.ndim(loc) or np.ndim(scale)):
                    size = np.broadcast(loc, scale).shape
                q = self._q(size)
                z = np.where(np.asarray(q) < 0.5, -4.753424, 4.753424)
                r = loc + z * scale
                return float(r) if size is None else r

            def standard_normal(self, size=None, dtype=np.float64, out=None):
                return self.normal(0.0, 1.0, size)
        _TAIL = TailRNG
    return _TAIL(seed, mode)


def tail_unit(u) -> Stats:
    """Every generator that draws its weights itself (not through networkx geometry) with the continuous draws pushed into both tails."""
    from incomplete_cooperative.generators import GENERATORS
    _, names, ns, seeds = u
    st = Stats()
    for name in names:
        for n in ns:
            for sd in seeds:
                for mode in ("lo", "hi", "alt0", "alt1"):
                    st.states += 1
                    st.transitions += 1
                    st.evals += 1
                    try:
                        g = GENERATORS[name](n, tail_rng(sd, mode))
                        vals = np.asarray(g.get_values(), dtype=np.float64)
                        msg = class_check(name, n, vals)
                        st.outcomes.add(hash(vals.tobytes()))
                    except Exception as e:  # noqa: BLE001
                        msg = f"raised {type(e).__name__}: {e}"
                    if msg:
                        st.violation(f"[generator {name} n={n} seed={sd}] with every continuous draw at the {mode} tail quantile (1e-6 / 1 - 1e-6): {msg}",
                                     generator=name, n=n, gen_seed=sd, tail=mode)
                        if st.nviol >= 3:
                            return st
                    else:
                        st.nontrivial += 1
    return st


def child_draws(payload):
    """Runs in a fresh interpreter (icverif.child): every seeded generator x n x seed, values as hex strings (bit exact)."""
    out = {}
    for name in payload["names"]:
        for n in payload["ns"]:
            for sd in payload["seeds"]:
                try:
                    out[f"{name}/{n}/{sd}"] = [float(x).hex() for x in gens.draw(name, n, sd)]
                except Exception as e:  # noqa: BLE001
                    out[f"{name}/{n}/{sd}"] = f"raised {type(e).__name__}: {e}"
    return out


def interpreter_unit(u) -> Stats:
    """A seeded generator is a function of (n, seed) - not of the interpreter: the same draws in separate interpreter invocations whose string
    hashing is salted differently (PYTHONHASHSEED 0 / 1 / 4242) must be bit-identical."""
    from ..child import run_children
    _, names, ns, seeds = u
    st = Stats()
    res = run_children("c10", "child_draws", {"names": names, "ns": ns, "seeds": seeds})
    ref_hs, ref = sorted(res.items())[0]
    for hs, r in sorted(res.items())[1:]:
        for key, vals in r.items():
            st.states += 1
            st.transitions += 1
            st.traces += 1
            if vals != ref[key]:
                name, n, sd = key.split("/")
                st.violation(f"[generator {name} n={n} seed={sd}] identically seeded calls in two interpreter invocations (PYTHONHASHSEED={ref_hs} and "
                             f"{hs}) returned different games", generator=name, n=int(n), gen_seed=int(sd), interpreters=True, hash_seeds=[ref_hs, hs])
                if st.nviol >= 3:
                    return st
    st.nontrivial += len(ref)
    return st


def cost(u) -> float:
    name, n, seeds = u
    w = 40 if name == "oxs" else 3 if name.startswith(("covg", "xos", "xs")) else 1
    return w * (4 ** n) * len(seeds)


def run(run: Run) -> None:
    quick, seed = run.quick, run.seed
    ns = range(3, 8) if quick else range(3, 10)
    width = 8 if quick else 48
    seeds = list(gens.seed_window(seed, width))
    us = []
    for name in gens.names():
        for n in ns:
            sd = seeds
            if name == "oxs" and n >= 7:
                sd = seeds[:2]
                if n >= 9:
                    continue
            if n >= 8 and not quick:
                sd = sd[:6] if n == 8 else sd[:2]
            us.append((name, n, sd))
    run.rule = ("every key of GENERATORS except 'convex' (pyfmtools absent) x n x every seed of the window [W*VERIF_SEED, W*VERIF_SEED+W) x two "
                "identically seeded calls; class membership (superadditive within the documented 1e-9 relative tolerance; additionally monotone "
                "non-increasing for xos/xs/oxs/k_budget/coverage) decided in exact rationals on the returned floats; determinism except for the "
                "documented unseeded families. non-trivial = draws with more than two distinct values")
    run.bounds = {"generators": len(gens.names()), "n": [ns[0], ns[-1]], "seed_window": [seeds[0], seeds[-1]]}
    run.assumptions = ["'all seeds' is met by a complete window that VERIF_SEED moves", "'convex' cannot run here (external dependency missing)"]
    run.add(fanout(unit, sorted(us, key=lambda u: -cost(u)), chunk=1))
    # long seed windows (rare-seed paths): 4096 seeds (thorough 16384) for the generators with data-dependent loops at n = 3 and 7
    span = 4096 if quick else 16384
    sweeps = []
    for name in (LOOPY if quick else [g for g in gens.names() if not gens.is_unseeded(g) and g not in ("oxs", "xos12", "xos12_norm_additive")]):
        if name not in gens.names() or gens.is_unseeded(name):
            continue
        for n in ((3, 7) if name in LOOPY else (7,)):
            base0 = span * seed
            for lo in range(base0, base0 + span, 512):
                sweeps.append((name, n, lo, lo + 512))
    # generators whose weights come from a continuous distribution: a tail of the distribution that leaves the class shows only for rare seeds
    for name in ("noisy_factory", "noisy_factory_square", "noisy_factory_exp", "noisy_factory_fixed"):
        if name in gens.names() and not gens.is_unseeded(name):
            for n in ((5,) if quick else (4, 5, 6)):
                base0 = span * seed
                for lo in range(base0, base0 + span, 512):
                    sweeps.append((name, n, lo, lo + 512))
    run.add(fanout(sweep_unit, sweeps, chunk=1))
    # geometric graph models place points with the continuous draws: equal quantiles put every point on the same spot (a probability-zero tie)
    tail_names = [g for g in gens.names() if not g.startswith("graph_geographical")]
    run.add(fanout(tail_unit, [("tail", tail_names[i::8], [3, 4, 5] if quick else [3, 4, 5, 6], seeds[:2]) for i in range(8)], chunk=1))
    seeded = [g for g in gens.names() if not gens.is_unseeded(g)]
    run.add(fanout(interpreter_unit, [("interpreters", seeded[i::4], [3, 4, 5] if quick else [3, 4, 5, 6], seeds[:2] if quick else seeds[:6]) for i in range(4)], procs=4, chunk=1))
    from ..core import fresh_forks
    hist_ns = [3, 4, 5, 6] if quick else [3, 4, 5, 6, 7]
    hus = [(name, hist_ns if name != "oxs" else hist_ns[:3], seeds[:2]) for name in gens.names() if not gens.is_unseeded(name)]
    run.add(fresh_forks(history_unit, hus, procs=14))
    run.rule += (f"; determinism over a long seed window [{span}*VERIF_SEED, +{span}) for the generators with data-dependent loops (all cheap seeded "
                 "generators in the thorough tier)")
    run.rule += ("; every generator with its continuous draws owned by the harness (all at the 1e-6 quantile, all at 1 - 1e-6, alternating): class membership"
                 "; every seeded generator x n = 3..5 x two seeds drawn in SEPARATE interpreters under PYTHONHASHSEED 0 / 1 / 4242: bit-identical"
                 "; call histories: for every seeded generator, in a freshly forked process, every ordered pair of player counts and a descending sweep - a "
                 "seeded call must return what it returned first; the first result is scribbled over before the second identically seeded call")


def replay(doc: dict):
    if doc.get("tail"):
        st = tail_unit(("tail", [doc["generator"]], [doc["n"]], [doc["gen_seed"]]))
        msgs = [v["message"] for v in st.violations]
        return bool(msgs), "; ".join(msgs) if msgs else "in class for all four tail modes"
    if doc.get("interpreters"):
        st = interpreter_unit(("interpreters", [doc["generator"]], [doc["n"]], [doc["gen_seed"]]))
        msgs = [v["message"] for v in st.violations]
        return bool(msgs), "; ".join(msgs) if msgs else "identical in all interpreter invocations"
    if doc.get("history"):
        from ..core import fresh_forks
        st = fresh_forks(history_unit, [(doc["generator"], sorted(set(doc.get("order", [3, 4]) + [doc["n"]])), [doc["gen_seed"]])], procs=1)
        msgs = [v["message"] for v in st.violations]
        return bool(msgs), "; ".join(msgs) if msgs else "seeded calls are history independent for this generator"
    st = unit((doc["generator"], doc["n"], [doc["gen_seed"]]))
    msgs = [v["message"] for v in st.violations]
    return bool(msgs), "; ".join(msgs) if msgs else f"generator {doc['generator']} n={doc['n']} seed={doc['gen_seed']} yields a game of its class"
