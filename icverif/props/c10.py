"""C10 — every offered game generator runs and yields a game of its assumed class (DESIGN §6 C10).

Configuration sweep: every registry key (except 'convex') x player counts x a complete seed window x two identically
seeded calls; class membership decided in exact rational arithmetic on the returned float values.
"""
from __future__ import annotations

from fractions import Fraction

import numpy as np

from .. import alphabets as A
from .. import gens
from ..core import Run, Stats, fanout


def class_check(name: str, n: int, vals: np.ndarray) -> str | None:
    if vals.dtype != np.float64:
        return f"values have dtype {vals.dtype}, not float64"
    if vals.shape != (1 << n,):
        return f"values have shape {vals.shape}, expected ({1 << n},)"
    if not np.all(np.isfinite(vals)):
        return "values contain NaN or infinity"
    if vals[0] != 0:
        return f"v(empty) = {vals[0]}"
    fv = [Fraction(float(x)) for x in vals]
    # superadditive with the library's documented relative tolerance (excess <= 1e-9*|v(U)|, exact when v(U) = 0)
    for u in range(1, 1 << n):
        for a, b in A.proper_splits(u):
            excess = fv[a] + fv[b] - fv[u]
            if excess > 0 and excess > Fraction(1, 10 ** 9) * abs(fv[u]):
                return (f"not superadditive: v({a}) + v({b}) = {float(fv[a] + fv[b])} > v({u}) = {float(fv[u])} "
                        f"(excess {float(excess)})")
    if gens.is_sam_family(name):
        for u in range(1, 1 << n):
            for a in [0] + list(A.proper_nonempty_subsets(u)):
                if fv[a] < fv[u]:
                    return f"not monotone non-increasing: v({a}) = {float(fv[a])} < v({u}) = {float(fv[u])}"
    return None


def unit(u) -> Stats:
    name, n, seeds = u
    st = Stats()
    for seed in seeds:
        doc = {"generator": name, "n": n, "gen_seed": seed}
        try:
            g1 = gens.draw_game(name, n, seed)
            v1 = np.asarray(g1.get_values())
        except Exception as e:  # noqa: BLE001
            st.violation(f"[generator {name} n={n} seed={seed}] raised {type(e).__name__}: {e}", **doc)
            return st
        st.states += 1
        st.transitions += 1
        st.evals += 1
        if getattr(g1, "number_of_players", None) != n:
            st.violation(f"[generator {name} n={n} seed={seed}] number_of_players = {getattr(g1, 'number_of_players', None)}", **doc)
            continue
        msg = class_check(name, n, v1)
        if msg:
            st.violation(f"[generator {name} n={n} seed={seed}] {msg}; values={v1.tolist()}", **doc)
            if st.nviol >= 2:
                return st
            continue
        try:
            v2 = np.asarray(gens.draw_game(name, n, seed).get_values())
        except Exception as e:  # noqa: BLE001
            st.violation(f"[generator {name} n={n} seed={seed}] second call raised {type(e).__name__}: {e}", **doc)
            return st
        st.transitions += 1
        msg = class_check(name, n, v2)
        if msg:
            st.violation(f"[generator {name} n={n} seed={seed}] second call: {msg}", **doc)
            continue
        if not gens.is_unseeded(name):
            if not np.array_equal(v1, v2):
                st.violation(f"[generator {name} n={n} seed={seed}] identically seeded calls returned different games: {v1.tolist()} vs {v2.tolist()}", **doc)
                continue
        if len(set(v1.tolist())) > 2:
            st.nontrivial += 1
        st.outcomes.add(hash(v1.tobytes()))
    if n == 4 and name in ("noisy_factory", "oxs"):
        st.sample({"generator": name, "n": n, "seed": seeds[0], "values": gens.draw(name, n, seeds[0])})
    return st


def cost(u) -> float:
    name, n, seeds = u
    w = 40 if name == "oxs" else 3 if name.startswith(("covg", "xos", "xs")) else 1
    return w * (4 ** n) * len(seeds)


def run(run: Run) -> None:
    quick, seed = run.quick, run.seed
    ns = range(3, 8) if quick else range(3, 10)
    width = 8 if quick else 48
    seeds = list(gens.seed_window(seed, width))
    us = []
    for name in gens.names():
        for n in ns:
            sd = seeds
            if name == "oxs" and n >= 7:
                sd = seeds[:2]
                if n >= 9:
                    continue
            if n >= 8 and not quick:
                sd = sd[:6] if n == 8 else sd[:2]
            us.append((name, n, sd))
    run.rule = ("every key of GENERATORS except 'convex' (pyfmtools absent) x n x every seed of the window [W*VERIF_SEED, W*VERIF_SEED+W) x two "
                "identically seeded calls; class membership (superadditive within the documented 1e-9 relative tolerance; additionally monotone "
                "non-increasing for xos/xs/oxs/k_budget/coverage) decided in exact rationals on the returned floats; determinism except for the "
                "documented unseeded families. non-trivial = draws with more than two distinct values")
    run.bounds = {"generators": len(gens.names()), "n": [ns[0], ns[-1]], "seed_window": [seeds[0], seeds[-1]]}
    run.assumptions = ["'all seeds' is met by a complete window that VERIF_SEED moves", "'convex' cannot run here (external dependency missing)"]
    run.add(fanout(unit, sorted(us, key=lambda u: -cost(u)), chunk=1))


def replay(doc: dict):
    st = unit((doc["generator"], doc["n"], [doc["gen_seed"]]))
    msgs = [v["message"] for v in st.violations]
    return bool(msgs), "; ".join(msgs) if msgs else f"generator {doc['generator']} n={doc['n']} seed={doc['gen_seed']} yields a game of its class"
