"""C17 — an incomplete game object is a faithful map coalition -> (known?, lower, upper) (DESIGN §6 C17).

Explicit-state BFS over the real IncompleteCooperativeGame: a state is the real object (restored with the public
copy()), a transition one public value operation with arguments from a small alphabet; in every state every public
getter is compared with a dict reference model O6. Bounds of unknown coalitions that the statement leaves
unspecified (after unset / bulk reset / construction) are tracked as UNSPEC in the model and not compared.
"""
from __future__ import annotations

import math

import numpy as np

from .. import alphabets as A
from ..core import Run, Stats, fanout
from ..lattice import coal, read, run_history

UNSPEC = None


class Model:
    """O6: S -> [known, lo, up]; lo/up may be UNSPEC for unknown coalitions."""

    def __init__(self, n: int) -> None:
        self.n = n
        self.t = {s: [False, UNSPEC, UNSPEC] for s in range(1 << n)}
        self.t[0] = [True, 0.0, 0.0]

    def copy(self) -> "Model":
        m = Model(self.n)
        m.t = {s: list(r) for s, r in self.t.items()}
        return m

    def apply(self, op) -> None:
        k = op[0]
        if k in ("set_value", "reveal_value"):
            self.t[op[1]] = [True, float(op[2]), float(op[2])]
        elif k in ("unset_value", "unreveal_value"):
            self.t[op[1]] = [False, UNSPEC, UNSPEC]
        elif k == "set_values":
            ids = range(1 << self.n) if op[1] is None else op[1]
            for s, x in zip(ids, op[2]):
                self.t[s] = [True, float(x), float(x)]
        elif k == "set_known_values":
            for s in self.t:
                self.t[s] = [False, UNSPEC, UNSPEC]
            self.t[0] = [True, 0.0, 0.0]
            ids = range(1 << self.n) if op[1] is None else op[1]
            for s, x in zip(ids, op[2]):
                self.t[s] = [True, float(x), float(x)]
        elif k in ("set_lower_bounds", "set_upper_bounds"):
            ids = range(1 << self.n) if op[1] is None else op[1]
            col = 1 if k == "set_lower_bounds" else 2
            for s, x in zip(ids, op[2]):
                if not self.t[s][0]:
                    self.t[s][col] = float(x)
        elif k == "bad_set_value":
            pass            # a rejected call sets nothing
        elif k == "neg":
            for s, (kn, lo, up) in list(self.t.items()):
                self.t[s] = [kn, UNSPEC if up is UNSPEC else -up + 0.0, UNSPEC if lo is UNSPEC else -lo + 0.0]
        else:
            raise AssertionError(op)


def real_apply(g, op):
    """Execute the operation on the real object; returns the object to continue with (neg returns a new one)."""
    k = op[0]
    if k == "set_values_alias_rev":        # the argument is a LIVE VIEW of the object's own table (reversed upper-bound column)
        g.set_values(g.get_upper_bounds()[::-1])
        return g
    if k == "set_known_values_alias":      # bulk reset to the object's own current values, passed as the live view get_values() returns
        g.set_known_values(g.get_values())
        return g
    if k == "bad_set_value":               # a call the library rejects; the caller catches the exception and keeps using the object
        try:
            g.set_value("not a number", coal(op[1]))
        except (ValueError, TypeError):
            pass
        return g
    if k in ("set_value", "reveal_value"):
        getattr(g, k)(op[2], coal(op[1]))
    elif k in ("unset_value", "unreveal_value"):
        getattr(g, k)(coal(op[1]))
    elif k in ("set_values", "set_lower_bounds", "set_upper_bounds"):
        vals = np.array(op[2], dtype=np.float64)
        getattr(g, k)(vals, None if op[1] is None else [coal(s) for s in op[1]])
    elif k == "set_known_values":
        g.set_known_values(list(op[2]), None if op[1] is None else [coal(s) for s in op[1]])
    elif k == "neg":
        return -g
    return g


def compare(g, m: Model) -> str | None:
    """Every public getter against the model."""
    n = m.n
    N = 1 << n
    all_c = [coal(s) for s in range(N)]
    known = [m.t[s][0] for s in range(N)]
    if np.asarray(g.are_values_known()).tolist() != known:
        return f"are_values_known() = {np.asarray(g.are_values_known()).tolist()}, model says {known}"
    if bool(g.full) != all(known):
        return f"full = {g.full}"
    kv = np.asarray(g.get_known_values())
    lows, ups = np.asarray(g.get_lower_bounds()), np.asarray(g.get_upper_bounds())
    ints = np.asarray(g.get_intervals())
    for s in range(N):
        kn, lo, up = m.t[s]
        c = all_c[s]
        if bool(g.is_value_known(c)) != kn:
            return f"is_value_known({s}) = {g.is_value_known(c)}, model {kn}"
        if kn:
            x = lo
            got = [float(g.get_value(c)), float(g.get_known_value(c)), float(kv[s]), float(g.get_lower_bound(c)), float(g.get_upper_bound(c)),
                   float(lows[s]), float(ups[s]), float(ints[s][0]), float(ints[s][1]), float(g.get_interval(c)[0]), float(g.get_interval(c)[1]),
                   float(g.get_values([c])[0]), float(g.get_known_values([c])[0]), float(g.get_lower_bounds([c])[0]), float(g.get_upper_bounds([c])[0])]
            if any(y != x for y in got):
                return f"known coalition {s} has value {x} but the getters return {got}"
        else:
            try:
                g.get_value(c)
                return f"get_value({s}) returned a value for an unknown coalition"
            except ValueError:
                pass
            try:
                g.get_values([c])
                return f"get_values([{s}]) returned a value for an unknown coalition"
            except ValueError:
                pass
            if g.get_known_value(c) is not None:
                return f"get_known_value({s}) = {g.get_known_value(c)} for an unknown coalition"
            if not math.isnan(float(kv[s])) or not math.isnan(float(g.get_known_values([c])[0])):
                return f"get_known_values reports {float(kv[s])} for the unknown coalition {s}"
            for name, want, got in (("lower", lo, [float(g.get_lower_bound(c)), float(lows[s]), float(ints[s][0]), float(g.get_lower_bounds([c])[0])]),
                                    ("upper", up, [float(g.get_upper_bound(c)), float(ups[s]), float(ints[s][1]), float(g.get_upper_bounds([c])[0])])):
                if want is not UNSPEC and any(y != want for y in got):
                    return f"unknown coalition {s}: {name} bound was set to {want} but the getters return {got}"
                if len(set(got)) != 1:
                    return f"unknown coalition {s}: {name}-bound getters disagree with each other: {got}"
    # the selection arguments are typed Iterable[Coalition]: one-shot iterables (generators, map objects) must behave like lists
    for sel in ([s for s in range(N) if s % 2], list(range(N - 1, 0, -1)), [N - 1, 1]):
        sel = [s for s in sel if s < N]
        if not sel:
            continue
        cs = [all_c[s] for s in sel]
        for name in ("get_lower_bounds", "get_upper_bounds", "are_values_known", "get_intervals", "get_known_values"):
            a = np.asarray(getattr(g, name)(list(cs)))
            b = np.asarray(getattr(g, name)(c for c in cs))
            if a.shape != b.shape or not np.array_equal(a, b, equal_nan=(a.dtype.kind == "f")):
                return f"{name}(generator over {sel}) = {b.tolist()} differs from {name}(list) = {a.tolist()}"
        want_known = all(m.t[s][0] for s in sel)
        for label, arg in (("generator", (c for c in cs)), ("map object", map(lambda c: c, cs))):
            try:
                got = np.asarray(g.get_values(arg)).tolist()
                if not want_known:
                    return f"get_values({label} over {sel}) returned {got} although coalitions {[s for s in sel if not m.t[s][0]]} are unknown"
                if got != [m.t[s][1] for s in sel]:
                    return f"get_values({label} over {sel}) = {got}, model {[m.t[s][1] for s in sel]}"
            except ValueError:
                if want_known:
                    return f"get_values({label} over {sel}) raised although all of them are known"
    if not all(known):
        try:
            g.get_values()
            return "get_values() returned although some coalition is unknown"
        except ValueError:
            pass
    else:
        if np.asarray(g.get_values()).tolist() != [m.t[s][1] for s in range(N)]:
            return "get_values() differs from the model"
    return None


def probe_independence(g, n: int) -> str | None:
    """Copies are independent both ways; negation leaves the original alone, swaps/negates, is an involution."""
    before = read(g).key
    repr(g)
    str(g)
    _ = g == g
    if read(g).key != before:
        return "repr() / str() / == changed the object"
    c = g.copy()
    if read(c).key != before:
        return "copy() differs from the original"
    s1 = (1 << n) - 1
    c.set_value(7.0, coal(s1))
    c.set_upper_bounds(np.full(1 << n, 9.0))
    c.unset_value(coal(1))
    if read(g).key != before:
        return "mutating a copy changed the original"
    c2 = g.copy()
    k2 = read(c2).key
    g2 = g          # mutate the original, then restore it through public operations on a fresh copy instead
    probe = g2.copy()
    probe.set_value(5.0, coal(1))
    if read(c2).key != k2:
        return "mutating an object changed an earlier copy of it"
    ng = -g
    if read(g).key != before:
        return "negation changed the original"
    tg, tn = read(g), read(ng)
    if tn.k != tg.k:
        return "negation changed the knowledge"
    if np.any(tn.lo != -tg.up + 0.0) or np.any(tn.up != -tg.lo + 0.0):
        return f"negation: lower={tn.lo.tolist()} upper={tn.up.tolist()} for original lower={tg.lo.tolist()} upper={tg.up.tolist()}"
    if read(-ng).key != before:
        return "-(-g) differs from g"
    ng.set_value(4.0, coal(s1))
    if read(g).key != before:
        return "mutating the negated game changed the original"
    return None


def alphabet(n: int, values, bounds, m: Model, with_neg: bool, extended: bool | None = None):
    """Enabled operations in the state described by the model, simplest first."""
    ops = []
    N = 1 << n
    if extended is None:
        extended = n != 2          # the closure at n = 2 would grow from 1 331 to > 100 000 states with the two extensions below
    # the empty coalition is a coalition like any other for the setters
    scalar = (list(range(0 if extended else 1, N)) if n <= 3 else [0, 1, 3, 6, N - 2, N - 1])
    for s in scalar:
        if m.t[s][0]:
            ops.append(("unset_value", s))
            ops.append(("unreveal_value", s))
        else:
            for x in values:
                ops.append(("reveal_value", s, x))
            ops.append(("unset_value", s))
        for x in values:
            ops.append(("set_value", s, x))
    if n == 1:
        subsets = [(1,), None]
    elif n == 2:
        subsets = [(1,), (2,), (3,), (1, 2), (1, 3), (2, 3), (3, 1), (2, 1), None]        # also lists that are NOT in ascending id order
    else:
        subsets = [(1,), (3, 5), (1, 6, N - 1), (6, 1, 3), (N - 1, 2), None]
    for sub in subsets:
        size = N if sub is None else len(sub)
        for pat in ((values[-1], values[0]), (values[0], values[-1])):
            vals = tuple(0 if (sub is None and i == 0) else pat[i % 2] for i in range(size))
            ops.append(("set_values", sub, vals))
            ops.append(("set_known_values", sub, vals))
        for b in bounds:
            vals = tuple(b if i % 2 == 0 else bounds[0] for i in range(size))
            ops.append(("set_lower_bounds", sub, vals))
            ops.append(("set_upper_bounds", sub, vals))
    # "unbounded": infinite bounds are legitimate bound values (known coalitions must not even notice them)
    inf = float("inf")
    for sub in ((None, subsets[-2]) if extended else ()):
        size = N if sub is None else len(sub)
        ops.append(("set_upper_bounds", sub, (inf,) * size))
        ops.append(("set_lower_bounds", sub, (-inf,) * size))
    if n <= 3:
        # arguments that alias the object's own table: the operation must behave as if it had been given a copy
        ops.append(("set_values_alias_rev",))
        if all(m.t[s][0] for s in range(N)):
            ops.append(("set_known_values_alias",))
    if extended:
        ops.append(("bad_set_value", N - 1))
        ops.append(("bad_set_value", 1))
    if with_neg:
        ops.append(("neg",))
    # de-duplicate (patterns coincide for singletons)
    seen, out = set(), []
    for o in ops:
        if o not in seen:
            seen.add(o)
            out.append(o)
    return out


def model_key(m: Model) -> tuple:
    return tuple((kn, lo, up) for kn, lo, up in (m.t[s] for s in range(1 << m.n)))


def clone(g, how: str):
    """The object an operation is applied to: a public copy() of the state (default), a deep copy, or a pickle round trip of it."""
    if how == "deepcopy":
        import copy
        return copy.deepcopy(g)
    if how == "pickle":
        import pickle
        return pickle.loads(pickle.dumps(g))
    return g.copy()


def explore(st: Stats, n: int, roots, values, bounds, max_depth: int | None, with_neg: bool, tag: str, how: str = "copy") -> None:
    """BFS; states de-duplicated on (real table digest, model state)."""
    seen = set()
    frontier = []
    for g, m, hist in roots:
        key = (read(g).key, model_key(m))
        if key not in seen:
            seen.add(key)
            frontier.append((g, m, hist))
    depth = 0
    while frontier:
        nxt = []
        for g, m, hist in frontier:
            st.states += 1
            msg = compare(g, m) or probe_independence(g, n)
            st.evals += 1
            if msg:
                st.violation(f"[game object n={n} {tag}] after {hist[-4:]}: {msg}", n=n, history=[list(map(_js, h)) for h in hist], tag=tag,
                             root=tag, clone=how)
                if st.nviol >= 3:
                    return
                continue
            if max_depth is not None and depth >= max_depth:
                continue
            for op in alphabet(n, values, bounds, m, with_neg):
                try:
                    g2 = real_apply(clone(g, how), op)
                except Exception as e:  # noqa: BLE001
                    st.violation(f"[game object n={n} {tag}] {op} raised {type(e).__name__}: {e} after {hist[-3:]}", n=n,
                                 history=[list(map(_js, h)) for h in hist + [op]], tag=tag, root=tag, clone=how)
                    if st.nviol >= 3:
                        return
                    continue
                st.transitions += 1
                m2 = m.copy()
                if op[0] == "set_values_alias_rev":
                    snap = np.array(g.get_upper_bounds(), dtype=np.float64)[::-1].copy()      # what the caller passed, as of call time
                    m2.apply(("set_values", None, tuple(float(x) + 0.0 for x in snap)))
                elif op[0] == "set_known_values_alias":
                    pass                                                                       # same knowledge, same values
                else:
                    m2.apply(op)
                key = (read(g2).key, model_key(m2))
                if key in seen:
                    continue
                seen.add(key)
                nxt.append((g2, m2, hist + [op]))
        frontier = nxt
        depth += 1
    st.count(f"max_depth_n{n}", depth)


def _js(x):
    return list(x) if isinstance(x, tuple) else x


def fresh_root(n: int):
    from incomplete_cooperative.game import IncompleteCooperativeGame
    return IncompleteCooperativeGame(n), Model(n), []


def computed_roots(n: int, v, Ks):
    """Non-initial starts: objects that went through set_known_values + compute_bounds of a real computer."""
    roots = []
    for K in Ks:
        g = run_history(n, "superadditive", v, [("reset", K), ("compute",)])
        t = read(g)
        m = Model(n)
        for s in range(1 << n):
            m.t[s] = [bool(K >> s & 1), float(t.lo[s]), float(t.up[s])]
        roots.append((g, m, [("<computed root>", K)]))
    return roots


def unit(u) -> Stats:
    kind, n, depth, with_neg, first_ops = u
    st = Stats()
    values = (0, 1) if depth is None else (0, 1, -2)
    bounds = (-1, 3)
    if kind == "fresh":
        g, m, h = fresh_root(n)
        roots = [(g, m, h)]
        if first_ops is not None:          # split the search by its first operation (parallelism)
            ops = alphabet(n, values, bounds, m, with_neg)
            roots = []
            for op in ops[first_ops[0]::first_ops[1]]:
                g2 = real_apply(g.copy(), op)
                m2 = m.copy()
                if op[0] == "set_values_alias_rev":
                    snap = np.array(g.get_upper_bounds(), dtype=np.float64)[::-1].copy()
                    m2.apply(("set_values", None, tuple(float(x) + 0.0 for x in snap)))
                elif op[0] != "set_known_values_alias":
                    m2.apply(op)
                roots.append((g2, m2, [op]))
                st.transitions += 1
            depth = depth - 1
        how = ("copy", "deepcopy", "pickle")[first_ops[0] % 3] if first_ops is not None and n >= 3 else "copy"
        explore(st, n, roots, values, bounds, depth, with_neg, f"fresh/{first_ops}/{how}", how)
    else:
        v = A.shifted(A.a3_sa()[700], A.ADD3) if n == 3 else A.shifted(A.a4_sa_reps(0)[50], A.ADD4)
        Ks = list(A.knowledge_sets(n))[:8] if n == 3 else list(A.knowledge_sets(n))[::128]
        explore(st, n, computed_roots(n, v, Ks), values, bounds, depth, with_neg, "computed")
    st.nontrivial = st.states
    st.traces = st.states
    if kind == "fresh" and n == 2:
        st.sample({"n": n, "ops_in_initial_state": [list(map(_js, o)) for o in alphabet(n, values, bounds, Model(n), with_neg)[:12]]})
    return st


def run(run: Run) -> None:
    quick = run.quick
    us = [("fresh", 1, None, True, None), ("fresh", 2, None, not quick, None)]
    split = 16
    us += [("fresh", 3, 3 if quick else 4, True, (i, split)) for i in range(split)]
    us += [("fresh", 5, 2, True, (i, 4)) for i in range(4)]
    us += [("fresh", 6, 2, True, (i, 4)) for i in range(4)]
    us += [("fresh", 8, 1 if quick else 2, True, (i, 4)) for i in range(4)]
    us += [("fresh", 9, 1, True, (i, 4)) for i in range(4)]
    us += [("computed", 3, 2 if quick else 3, True, None), ("computed", 4, 1 if quick else 2, False, None)]
    run.rule = ("BFS over public value operations {set/unset/reveal/unreveal, bulk set, bulk reset, bulk bound setters, negate} of the real object; "
                "n=1,2 to closure (values {0,1}, bounds {-1,3}), n=3 depth <= 3 (thorough 4), n=5 depth <= 2, plus non-initial roots produced by a real "
                "bound computer; in every state all public getters are compared with a dict model and copy/negation independence is probed. "
                "every operation is applied to a clone of the state: public copy(), copy.deepcopy or a pickle round trip (rotating over the search shards). "
                "states are de-duplicated on (table digest, model state); non-trivial = distinct states")
    run.bounds = {"closure_n": [1, 2], "depth_n3": 3 if quick else 4, "depth_n5": 2, "negation_as_transition_n2": not quick}
    run.assumptions = ["bounds of unknown coalitions after unset / bulk reset / construction are unspecified by the statement and not compared"]
    run.add(fanout(unit, us, chunk=1))


def replay(doc: dict):
    n = doc["n"]
    hist = doc["history"]
    if hist and hist[0][0] == "<computed root>":
        roots = computed_roots(n, A.shifted(A.a3_sa()[700], A.ADD3) if n == 3 else A.shifted(A.a4_sa_reps(0)[50], A.ADD4), [hist[0][1]])
        g, m, _ = roots[0]
        hist = hist[1:]
    else:
        g, m, _ = fresh_root(n)
    for op in hist:
        op = tuple(tuple(x) if isinstance(x, list) else x for x in op)
        snap = np.array(g.get_upper_bounds(), dtype=np.float64)[::-1].copy()
        try:
            g = real_apply(clone(g, doc.get("clone", "copy")), op)
        except Exception as e:  # noqa: BLE001
            return True, f"{op} raised {type(e).__name__}: {e}"
        if op[0] == "set_values_alias_rev":
            m.apply(("set_values", None, tuple(float(x) + 0.0 for x in snap)))
        elif op[0] != "set_known_values_alias":
            m.apply(op)
    msg = compare(g, m) or probe_independence(g, n)
    return bool(msg), f"replay {hist}: {msg or 'object agrees with the reference model'}"
