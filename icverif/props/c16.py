"""C16 — the size-aggregated environment is a faithful abstraction of the full one (DESIGN §6 C16).

E1 + E4: BFS over the real ICG_Gym_Linear where numpy.random.choice is owned by a choice controller, so every
(size k, candidate j) pair is a separate transition (all tie-breaks are enumerated, none sampled).
"""
from __future__ import annotations

import numpy as np

from .. import alphabets as A
from .. import envs, gaps, gens
from ..core import HarnessError, Run, Stats, fanout
from ..envmodel import snapshot
from ..lattice import read


class Choice:
    """E4: replaces numpy.random.choice while one transition runs."""

    def __init__(self) -> None:
        self.want = 0
        self.calls: list = []
        self._orig = None

    def __call__(self, a, *args, **kw):
        arr = np.asarray(a)
        self.calls.append(arr.copy())
        if arr.ndim == 0:
            arr = np.arange(int(arr))
        if len(arr) == 0:
            raise ValueError("a must be non-empty")
        return arr[min(self.want, len(arr) - 1)]

    def __enter__(self):
        self._orig = np.random.choice
        np.random.choice = self
        self.calls = []
        return self

    def __exit__(self, *exc):
        np.random.choice = self._orig
        return False


def inner_known(lin) -> frozenset:
    env = lin.icg_gym
    return frozenset(a for a, m in enumerate(np.asarray(env.action_masks()).tolist()) if not m)


def check_static(lin, n: int, ex, R: frozenset, what: str, state_ret=None) -> str | None:
    """Mask and observation of the linear env against the inner env it wraps."""
    env = lin.icg_gym
    mask = np.asarray(lin.action_masks())
    if mask.shape != (n,):
        return f"{what}: linear mask has shape {mask.shape}, expected ({n},)"
    for k in range(n):
        want = any(A.popcount(ex[a]) == k and a not in R for a in range(len(ex)))
        if bool(mask[k]) != want:
            return f"{what}: mask[{k}] = {bool(mask[k])}, but {'some' if want else 'no'} explorable coalition of size {k} is still unknown"
    inner = np.asarray(env.state, dtype=np.float64)
    want_obs = [sum(float(inner[a]) for a in range(len(ex)) if A.popcount(ex[a]) == k) for k in range(n)]
    for label, obs in (("state", lin.state), ("returned observation", state_ret)):
        if obs is None:
            continue
        obs = np.asarray(obs, dtype=np.float64)
        if obs.shape != (n,):
            return f"{what}: {label} has shape {obs.shape}, expected ({n},)"
        if any(abs(float(obs[k]) - want_obs[k]) > 1e-12 * max(1.0, abs(want_obs[k])) for k in range(n)):
            return f"{what}: {label} {obs.tolist()} is not the per-size sum {want_obs} of the underlying observation {inner.tolist()}"
    if float(lin.reward) != float(env.reward) or bool(lin.done) != bool(env.done):
        return f"{what}: reward/done ({lin.reward}, {lin.done}) differ from the underlying environment's ({env.reward}, {env.done})"
    return None


def unit(u) -> Stats:
    n, vs, comp, gap_name, budget, tag, max_depth = u[:7]
    known_extra = tuple(u[7]) if len(u) > 7 else ()
    games = []
    for v in (vs if isinstance(vs, list) else [vs]):
        if isinstance(v, tuple) and v and v[0] == "GEN":
            v = gens.draw(v[1], v[2], v[3])
        games.append(tuple(v))
    st = Stats()
    doc0 = {"n": n, "games": [list(g) for g in games], "computer": comp, "gap": gap_name, "budget": budget, "tag": tag, "known_extra": list(known_extra)}
    script = envs.Script(games)
    lin = envs.make_env(n, script, comp, gaps.registry()[gap_name], budget, linear=True, known_extra=known_extra)
    ex = envs.explorable(lin.icg_gym)
    # episodes: the env object lives on; every episode starts with reset() and is explored completely; the object that enters the
    # next episode is one that has just finished an episode (state carried across resets travels along)
    carry = lin
    for episode in range(len(games) + 1):
        ret = carry.reset()
        v = games[(carry.icg_gym.generator.calls - 1) % len(games)]
        prefix = [("episode", episode)]
        msg = check_static(carry, n, ex, frozenset(), f"after reset #{episode + 1}", ret[0])
        if msg:
            st.violation(f"[linear {tag} n={n}] {msg}", history=[list(h) for h in prefix], **doc0)
            return st
        carry = explore_episode(st, carry, n, ex, v, comp, gap_name, tag, max_depth, doc0, prefix)
        if carry is None or st.nviol >= 3:
            break
    st.traces += 1
    if n == 4 and tag.startswith("exact"):
        st.sample({"n": n, "hidden_games": [list(g) for g in games], "transitions": "(size k, candidate j), reset between episodes"})
    return st


def explore_episode(st: Stats, lin, n, ex, v, comp, gap_name, tag, max_depth, doc0, prefix):
    """BFS over (size, candidate) transitions of one episode; returns an env object at the end of a longest path (to be reset next)."""
    seen = {frozenset()}
    frontier = [(lin, frozenset(), list(prefix))]
    last = lin
    depth = 0
    ctl = Choice()
    consulted_always = True
    while frontier and (max_depth is None or depth < max_depth):
        nxt = []
        for obj, R, hist in frontier:
            if bool(obj.done):
                continue                  # sequences of allowed sizes until done
            mask = np.asarray(obj.action_masks()).tolist()
            for k in range(n):
                if not mask[k]:
                    continue
                cands = [a for a in range(len(ex)) if a not in R and A.popcount(ex[a]) == k]
                j = 0
                while j < max(1, len(cands)):
                    e2 = snapshot_linear(obj)
                    ctl.want = j
                    h2 = hist + [("step", k, j)]
                    try:
                        with ctl:
                            ret = e2.step(k)
                    except Exception as e:  # noqa: BLE001
                        st.violation(f"[linear {tag} n={n}] step(size {k}) raised {type(e).__name__}: {e} at revealed {sorted(ex[a] for a in R)}",
                                     history=[list(h) for h in h2], **doc0)
                        break
                    st.transitions += 1
                    st.evals += 1
                    R2 = inner_known(e2)
                    msg = None
                    if len(ctl.calls) != 1:
                        consulted_always = False
                        st.cap("a step did not consult numpy.random.choice exactly once: tie-breaks of that step are not enumerated")
                    else:
                        got = sorted(int(x) for x in ctl.calls[0].tolist())
                        if got != cands:
                            msg = (f"step(size {k}) sampled among actions {got} (coalitions {[ex[a] for a in got]}), but the unknown coalitions of size {k} "
                                   f"are actions {cands} (coalitions {[ex[a] for a in cands]})")
                    if not msg:
                        new = R2 - R
                        if len(new) != 1 or R - R2:
                            msg = f"step(size {k}) changed the known set from {sorted(R)} to {sorted(R2)} (exactly one more coalition expected)"
                        else:
                            a = next(iter(new))
                            if A.popcount(ex[a]) != k:
                                msg = f"step(size {k}) revealed coalition {ex[a]} of size {A.popcount(ex[a])}"
                            elif len(ctl.calls) == 1 and cands and a != cands[min(j, len(cands) - 1)]:
                                msg = f"step(size {k}) revealed action {a}, the sampled candidate was {cands[min(j, len(cands) - 1)]}"
                            elif ret[4].get("chosen_coalition") != ex[a]:
                                msg = f"info reports coalition {ret[4].get('chosen_coalition')}, revealed was {ex[a]}"
                            elif float(ret[1]) != float(e2.icg_gym.reward) or bool(ret[2]) != bool(e2.icg_gym.done):
                                msg = f"returned reward/done ({ret[1]}, {ret[2]}) differ from the underlying environment's ({e2.icg_gym.reward}, {e2.icg_gym.done})"
                            else:
                                tab = read(e2.icg_gym.incomplete_game)
                                if float(tab.lo[ex[a]]) != v[ex[a]]:
                                    msg = f"revealed coalition {ex[a]} carries {float(tab.lo[ex[a]])}, hidden value is {v[ex[a]]}"
                    if not msg:
                        msg = check_static(e2, n, ex, R2, f"after step(size {k})", ret[0])
                    if msg:
                        st.violation(f"[linear {tag} n={n} {comp} {gap_name}] at revealed {sorted(ex[a] for a in R)}: {msg}", history=[list(h) for h in h2], **doc0)
                        if st.nviol >= 3:
                            return None
                    elif R2 not in seen:
                        seen.add(R2)
                        st.states += 1
                        nxt.append((e2, R2, h2))
                        last = e2
                    j += 1
                    if len(ctl.calls) != 1:
                        break
        frontier = nxt
        depth += 1
    st.states += 1
    st.nontrivial += len(seen)
    if not consulted_always:
        st.note("random source of the linear env is no longer numpy.random.choice: exploration of tie-breaks is incomplete (not a violation)")
    return last


def snapshot_linear(lin):
    import copy
    memo = {}
    for o in (lin.observation_space, lin.action_space, lin.icg_gym.observation_space, lin.icg_gym.action_space, lin.icg_gym.gap_func):
        memo[id(o)] = o
    return copy.deepcopy(lin, memo)


def run(run: Run) -> None:
    gaps.registry()
    seed, quick = run.seed, run.quick
    us = []
    g3 = A.a3_sa()
    reps = A.a4_sa_reps(seed)
    any3 = A.a3_any()
    for k in range(3):
        us.append((3, [A.shifted(g3[(53 * (seed + 1) + 401 * k) % len(g3)], A.ADD3), g3[(11 * (seed + 2) + 97 * k) % len(g3)]],
                   ("superadditive", "superadditive_cached")[k % 2], gaps.NAMES[k % 4], (None, 2, 3)[k], f"exact3#{k}", None))
    # the abstraction must be faithful whatever the hidden game is: games that are NOT superadditive (negative normalised values)
    nonsa = [g for g in any3 if not A.is_superadditive(g) and g[7] - g[1] - g[2] - g[4] > 0]
    for k in range(2):
        g = nonsa[(101 * (seed + 1) + 977 * k) % len(nonsa)]
        us.append((3, [g, A.shifted(g, A.ADD3)], "superadditive_cached", gaps.NAMES[k], None, f"nonsa3#{k}", None))
    us.append((4, [tuple(float((s * 7) % 5 - 2) if A.popcount(s) in (2, 3) else float(A.popcount(s) ** 2) if s else 0.0 for s in range(16))],
               "superadditive_cached", "l1_norm", None, "nonsa4", None))
    us.append((3, ("GEN", "xos", 3, seed), "sam_apx_1", "l1_norm", None, "gen3:xos", None))
    for k in range(3):
        g4 = [A.shifted(reps[(7 * (seed + 1) + 59 * k) % len(reps)], A.ADD4)]
        if k == 0:
            g4.append(reps[(3 * (seed + 1)) % len(reps)])
        us.append((4, g4, "superadditive_cached", ("l1_norm", "exploitability", "linf_norm")[k], (None, 3, 10)[k], f"exact4#{k}", None))
    us.append((4, ("GEN", "noisy_factory", 4, seed), "superadditive", "l1_norm", None, "gen4:noisy_factory", None))
    for k, name in enumerate(("factory", "graph_cycle", "k_budget_generator")):
        us.append((5, ("GEN", name, 5, seed + k), "superadditive_cached", "l1_norm", None, f"gen5:{name}", 3 if quick else 4))
    for k, name in enumerate(("factory_square", "xs", "graph_random")):
        us.append((6, ("GEN", name, 6, seed + k), "superadditive_cached", "l1_norm", None, f"gen6:{name}", 2))
    us.append((7, [dict(A.larger_n_samples(7))["path-shift"]], "superadditive_cached", "l1_norm", 2, "exact7", 1))
    big3 = A.shifted(g3[(7 * (seed + 1)) % len(g3)], tuple(A.BIG * x for x in (1, -1, 2)))
    us.append((3, [big3, A.scaled(g3[(19 * (seed + 2)) % len(g3)], A.TINY)], "superadditive", "l1_norm", None, "exact3-scales", None))
    # sizes of wildly different magnitude (pairs ~ 2^40, larger coalitions ~ 1; singletons 0 and v(N) = 1, so the observation carries the raw
    # values): a per-size sum must not inherit the rounding of the other sizes
    for n_ in (4, 5):
        gm = tuple(0.0 if A.popcount(s) <= 1 else 1.0 if s == (1 << n_) - 1 else float(2 ** 40) * (1 + (s % 5) / 8 + 1 / 3) if A.popcount(s) == 2
                   else 1 / 3 + (s % 7) / 16 for s in range(1 << n_))
        us.append((n_, [gm], "superadditive_cached", "l1_norm", None, f"mixed-magnitude{n_}", None if n_ == 4 else 2))
    # environments whose initial knowledge contains EVERY coalition of one size (that size is never offered; its neighbours are)
    for n_, sizes, dep in ((5, (3,), 3), (5, (2,), 3), (6, (3, 4), 2), (4, (2,), None)):
        extra = tuple(s for s in A.explorable_ids(n_) if A.popcount(s) in sizes)
        gk = dict(A.larger_n_samples(n_))["path-shift"] if n_ >= 5 else A.shifted(reps[(5 * (seed + 1)) % len(reps)], A.ADD4)
        us.append((n_, [gk], "superadditive_cached", "l1_norm", None, f"exact{n_}-sizes{''.join(map(str, sizes))}-known", dep, extra))
    run.rule = ("BFS over the real ICG_Gym_Linear with numpy.random.choice owned by a choice controller: transitions are (allowed size k, candidate j) for "
                "EVERY candidate, over several episodes (reset between them, differing scripted hidden games incl. non-superadditive ones) on one "
                "long-lived env; n=3,4 all states until done, n=5 depth <= 3 (thorough 4), n=6 depth <= 2; after reset and after every step: mask per "
                "size, candidates offered == unknown coalitions of that size, exactly one new coalition of size k revealed and reported, reward/done == "
                "underlying env, observation == per-size sum of the underlying observation (length n). non-trivial = distinct revealed sets")
    run.bounds = {"n": [3, 4, 5, 6, 7], "n5_depth": 3 if quick else 4, "n6_depth": 2, "configurations": len(us)}
    run.assumptions = ["the underlying environment's own correctness is C09's; here it is the reference"]
    run.add(fanout(unit, sorted(us, key=lambda u: -(u[0] if u[0] != 4 else 5.5)), chunk=1))


def replay(doc: dict):
    games = [tuple(g) for g in doc.get("games", [doc.get("values")])]
    st = unit((doc["n"], games, doc["computer"], doc["gap"], doc.get("budget"), doc.get("tag", "replay"),
               None if doc["n"] <= 4 else 3, tuple(doc.get("known_extra", ()))))
    msgs = [v["message"] for v in st.violations]
    return bool(msgs), "; ".join(msgs[:3]) if msgs else "linear env is a faithful abstraction on this configuration"
