"""C14 — regret minimiser: constructible at every size; strategies are valid distributions (DESIGN §6 C14).

Explicit-state BFS over iteration histories of the real GameRegretMinimizer: a state is (cumulative regret table,
cumulative strategy table, iteration counter); a transition is one regret_min_iteration with a terminal-value vector
from a small alphabet; invariants are evaluated in every state and at EVERY node (coalition set) of the tree.
"""
from __future__ import annotations

import itertools
import os
import shutil
import tempfile
from pathlib import Path

import numpy as np

from .. import alphabets as A
from ..core import Run, Stats, fanout
from ..lattice import coal

TOL = 2e-5


def build(n: int, limit: int, plus: bool):
    from incomplete_cooperative.regret import GameRegretMinimizer
    return GameRegretMinimizer(n, limit, plus)


def viable(n: int) -> list[int]:
    return [s for s in range(1 << n) if A.popcount(s) not in (0, 1, n)]


def check_construction(st: Stats, n: int, limit: int, plus: bool):
    """Constructible; ranking is a bijection onto all coalition sets of size <= min(limit, #coalitions), ordered by size."""
    doc = {"n": n, "limit": limit, "plus": plus, "history": []}
    try:
        rm = build(n, limit, plus)
    except Exception as e:  # noqa: BLE001
        st.violation(f"[regret n={n} limit={limit} plus={plus}] constructor raised {type(e).__name__}: {e}", **doc)
        return None
    st.transitions += 1
    noc = (1 << n) - n - 2
    eff = min(limit, noc)
    r2i = [int(x) for x in rm.meta_rank_to_id]
    want = {sum(1 << p for p in c) for k in range(eff + 1) for c in itertools.combinations(range(noc), k)}
    if len(r2i) != len(set(r2i)) or set(r2i) != want:
        st.violation(f"[regret n={n} limit={limit}] ranking is not a bijection onto the coalition sets of size <= {eff}: "
                     f"{len(r2i)} ranks, {len(set(r2i))} distinct ids, {len(want)} sets expected", **doc)
        return None
    sizes = [A.popcount(x) for x in r2i]
    if any(a > b for a, b in zip(sizes, sizes[1:])):
        st.violation(f"[regret n={n} limit={limit}] ranking is not ordered by set size", **doc)
        return None
    i2r = rm.meta_id_to_rank
    for r, mid in enumerate(r2i):
        if int(i2r[mid]) != r:
            st.violation(f"[regret n={n} limit={limit}] id->rank is not the inverse of rank->id at rank {r} (id {mid}): {int(i2r[mid])}", **doc)
            return None
    st.evals += 1
    return rm


class Ctx:
    def __init__(self, rm, n: int, limit: int, plus: bool) -> None:
        self.rm, self.n, self.limit, self.plus = rm, n, limit, plus
        self.noc = (1 << n) - n - 2
        self.eff = min(limit, self.noc)
        self.via = viable(n)                               # pid -> coalition id
        self.r2i = [int(x) for x in rm.meta_rank_to_id]
        self.nodes = [m for m in self.r2i if A.popcount(m) < self.eff]
        self.terminals = [m for m in self.r2i if A.popcount(m) == self.eff]
        self.used_actions = [[coal(self.via[p]) for p in range(self.noc) if m >> p & 1] for m in self.terminals]

    def snapshot(self):
        rm = self.rm
        return (np.array(rm.cumulative_regret, copy=True), np.array(rm.cumulative_strategy, copy=True), int(rm.iteration))

    def restore(self, snap) -> None:
        rm = self.rm
        rm.cumulative_regret = np.array(snap[0], copy=True)
        rm.cumulative_strategy = np.array(snap[1], copy=True)
        rm.iteration = snap[2]

    def key(self, snap) -> bytes:
        return (snap[0] + np.float32(0)).tobytes() + (snap[1] + np.float32(0)).tobytes() + str(snap[2]).encode()

    def iterate(self, rm, losses) -> None:
        """One iteration. An entry None means: that terminal set is NOT listed in used_actions (its loss is then 0 by definition)."""
        if any(x is None for x in losses):
            idx = [i for i, x in enumerate(losses) if x is not None]
            rm.regret_min_iteration(np.array([losses[i] for i in idx], dtype=np.float64), [self.used_actions[i] for i in idx])
        else:
            rm.regret_min_iteration(np.array(losses, dtype=np.float64), self.used_actions)

    def strategies(self, rm):
        return {m: np.asarray(rm.regret_matching_strategy(int(m)), dtype=np.float64) for m in self.nodes}

    def invariants(self, rm) -> str | None:
        """Distribution / support invariants at every node."""
        n = self.n
        if not np.all(np.isfinite(rm.cumulative_regret)) or not np.all(np.isfinite(rm.cumulative_strategy)):
            return "tables contain NaN or infinity"
        if self.plus and np.any(rm.cumulative_regret < 0):
            return f"'plus' variant has negative cumulative regret {float(rm.cumulative_regret.min())}"
        nonviable = [s for s in range(1 << n) if s not in self.via]
        for m in self.nodes:
            used = [p for p in range(self.noc) if m >> p & 1]
            cur = np.asarray(rm.regret_matching_strategy(int(m)), dtype=np.float64)
            if cur.shape != (self.noc,):
                return f"current strategy at node {m} has shape {cur.shape}"
            if np.any(cur < 0) or abs(cur.sum() - 1) > TOL or not np.all(np.isfinite(cur)):
                return f"current strategy at node {m} is not a distribution: {cur.tolist()}"
            if any(cur[p] != 0 for p in used):
                return f"current strategy at node {m} puts mass on already revealed coalitions {used}: {cur.tolist()}"
            past = [coal(self.via[p]) for p in used]
            avg = np.asarray(rm.get_average_strategy(past), dtype=np.float64)
            if avg.shape != (1 << n,):
                return f"average strategy at node {m} has shape {avg.shape}"
            if np.any(avg < 0) or abs(avg.sum() - 1) > TOL or not np.all(np.isfinite(avg)):
                return f"average strategy at node {m} is not a distribution over coalitions: {avg.tolist()}"
            if any(avg[s] != 0 for s in nonviable):
                return f"average strategy at node {m} puts mass on non-viable coalitions: {avg.tolist()}"
            if any(avg[self.via[p]] != 0 for p in used):
                return f"average strategy at node {m} puts mass on already revealed coalitions: {avg.tolist()}"
        return None


def step_checks(ctx: Ctx, before, losses, hist=None) -> str | None:
    """One transition from `before`: orthogonality (plain) / plus-twin relation; leaves ctx.rm in the successor state."""
    rm = ctx.rm
    ctx.restore(before)
    strat_before = ctx.strategies(rm)
    if ctx.plus:
        twin = build(ctx.n, ctx.limit, False)
        twin.cumulative_regret = np.array(before[0], copy=True)
        twin.cumulative_strategy = np.array(before[1], copy=True)
        twin.iteration = before[2]
        ctx.iterate(twin, losses)
        delta = np.asarray(twin.cumulative_regret, dtype=np.float64) - np.asarray(before[0], dtype=np.float64)
    ctx.iterate(rm, losses)
    if int(rm.iteration) != before[2] + 1:
        return f"iteration counter {rm.iteration} after one iteration from {before[2]}"
    after = np.asarray(rm.cumulative_regret, dtype=np.float64)
    scale = max(1.0, float(np.max(np.abs(after), initial=0)), float(max((x for x in losses if x is not None), default=0)))
    if any(x is None for x in losses) and hist is not None:
        # listing only part of the terminal sets == listing all of them with loss 0 for the others. Both sides are legitimate histories
        # executed from scratch on fresh objects (whatever an object keeps besides its tables from EARLIER iterations takes part)
        a, _ = replay_history(ctx.n, ctx.limit, ctx.plus, list(hist) + [losses])
        b, _ = replay_history(ctx.n, ctx.limit, ctx.plus, list(hist) + [tuple(0 if x is None else x for x in losses)])
        if not (np.array_equal(a.cumulative_regret, b.cumulative_regret) and np.array_equal(a.cumulative_strategy, b.cumulative_strategy)):
            return ("an iteration that lists only part of the terminal sets gives other tables than the same iteration with the unlisted sets "
                    "listed at loss 0 (same earlier iterations, fresh objects)")
        ctx.restore((a.cumulative_regret, a.cumulative_strategy, int(a.iteration)))     # continue from the from-scratch state
        after = np.asarray(rm.cumulative_regret, dtype=np.float64)
    if not ctx.plus:
        delta = after - np.asarray(before[0], dtype=np.float64)
        for m in ctx.nodes:
            r = int(rm.meta_id_to_rank[m])
            dot = float(np.dot(delta[r], strat_before[m]))
            if abs(dot) > 1e-4 * scale:
                return (f"regret added at node {m} is not orthogonal to the strategy played there: <delta, strategy> = {dot} "
                        f"(delta={delta[r].tolist()}, strategy={strat_before[m].tolist()})")
    else:
        want = np.maximum(np.asarray(before[0], dtype=np.float64) + delta, 0)
        if np.max(np.abs(after - want), initial=0) > 1e-4 * scale:
            return "'plus' tables differ from max(before + plain increment, 0)"
    return None


def loss_alphabet(ctx: Ctx, small: bool) -> list[tuple]:
    t = len(ctx.terminals)
    if ctx.n == 3:
        full = list(itertools.product((0, 1, 2), repeat=t))
        part = []
        if t > 1:
            for i in range(t):          # only terminal set i listed / all but i listed
                part += [tuple(x if j == i else None for j in range(t)) for x in (1, 2)]
                part.append(tuple(None if j == i else 1 + (j % 2) for j in range(t)))
        return full + part
    out = [tuple([0] * t), tuple([1] * t), tuple(float(A.popcount(ctx.via[min(p for p in range(ctx.noc) if m >> p & 1)])) if m else 0.0
                                                    for m in ctx.terminals)]
    units = range(t) if (not small and t <= 130) else list(range(0, t, max(1, t // 8)))[:8]
    for i in units:
        v = [0] * t
        v[i] = 1
        out.append(tuple(v))
    for i in list(units)[:4]:        # partial lists: only terminal set i / only the first half
        out.append(tuple(1 if j == i else None for j in range(t)))
    if t > 1:
        out.append(tuple(2 if j < t // 2 else None for j in range(t)))
    seen, res = set(), []
    for v in out:
        if v not in seen:
            seen.add(v)
            res.append(v)
    return res


def replay_history(n: int, limit: int, plus: bool, hist):
    """Fresh object, public operations only."""
    rm = build(n, limit, plus)
    ctx = Ctx(rm, n, limit, plus)
    for losses in hist:
        ctx.iterate(rm, losses)
    return rm, ctx


def unit(u) -> Stats:
    n, limit, plus, depth, small, saveload = u
    st = Stats()
    doc = {"n": n, "limit": limit, "plus": plus}
    rm = check_construction(st, n, limit, plus)
    if rm is None:
        return st
    ctx = Ctx(rm, n, limit, plus)
    alpha = loss_alphabet(ctx, small)
    s0 = ctx.snapshot()
    seen = {ctx.key(s0)}
    frontier = [(s0, [])]
    scratch = tempfile.mkdtemp(prefix="icverif-c14-") if saveload else None
    try:
        for d in range(depth + 1):
            nxt = []
            for snap, hist in frontier:
                st.states += 1
                ctx.restore(snap)
                try:
                    msg = ctx.invariants(rm)
                except Exception as e:  # noqa: BLE001
                    msg = f"strategy query raised {type(e).__name__}: {e}"
                st.evals += 1
                if msg:
                    st.violation(f"[regret n={n} limit={limit} plus={plus}] after {len(hist)} iterations: {msg}", history=[list(h) for h in hist], **doc)
                    if st.nviol >= 3:
                        return st
                    continue
                # G6: the state reached by restore must equal the state a fresh object reaches through the history
                if n == 3 or len(hist) == d and st.states % 17 == 0:
                    f_rm, _ = replay_history(n, limit, plus, hist)
                    st.traces += 1
                    if not (np.array_equal(f_rm.cumulative_regret, snap[0]) and np.array_equal(f_rm.cumulative_strategy, snap[1])
                            and f_rm.iteration == snap[2]):
                        st.violation(f"[regret n={n} limit={limit} plus={plus}] replay of the history on a fresh object reaches different tables "
                                     f"(hidden state not captured by the two tables and the counter)", history=[list(h) for h in hist], **doc)
                        return st
                if d == depth:
                    continue
                for losses in alpha:
                    try:
                        msg = step_checks(ctx, snap, losses, hist)
                    except Exception as e:  # noqa: BLE001
                        msg = f"regret_min_iteration raised {type(e).__name__}: {e}"
                    st.transitions += 1
                    if msg:
                        st.violation(f"[regret n={n} limit={limit} plus={plus}] iteration with terminal values {list(losses)[:12]} after {len(hist)} "
                                     f"iterations: {msg}", history=[list(h) for h in hist + [losses]], **doc)
                        if st.nviol >= 3:
                            return st
                        continue
                    s2 = ctx.snapshot()
                    # save -> load -> same next operation => identical tables
                    if saveload and (n == 3 or st.transitions % 11 == 0):
                        p = Path(scratch) / "rm"
                        rm.save(p)
                        from incomplete_cooperative.regret import GameRegretMinimizer
                        loaded = GameRegretMinimizer.load(p)
                        lctx = Ctx(loaded, n, limit, plus)
                        nxt_losses = alpha[(len(hist) + 1) % len(alpha)]
                        lctx.iterate(loaded, nxt_losses)
                        ctx.iterate(rm, nxt_losses)
                        st.evals += 1
                        if not (np.array_equal(loaded.cumulative_regret, rm.cumulative_regret)
                                and np.array_equal(loaded.cumulative_strategy, rm.cumulative_strategy)
                                and loaded.iteration == rm.iteration and loaded.plus == rm.plus
                                and loaded.limit_of_revealed == rm.limit_of_revealed):
                            st.violation(f"[regret n={n} limit={limit} plus={plus}] a saved-then-loaded minimiser does not continue identically",
                                         history=[list(h) for h in hist + [losses]], saveload=True, **doc)
                            return st
                        # the checkpoint itself must not move when a minimiser loaded from it keeps iterating: load it AGAIN
                        again = GameRegretMinimizer.load(p)
                        st.evals += 1
                        if not (np.array_equal(np.asarray(again.cumulative_regret), s2[0]) and np.array_equal(np.asarray(again.cumulative_strategy), s2[1])
                                and again.iteration == s2[2]):
                            st.violation(f"[regret n={n} limit={limit} plus={plus}] loading the same checkpoint a second time (after the first loaded minimiser "
                                         f"iterated) gives different tables: the checkpoint on disk was modified", history=[list(h) for h in hist + [losses]],
                                         saveload=True, **doc)
                            return st
                        # a checkpoint is the CONTENT of its directory: a copy of the directory, loaded after training went on and overwrote
                        # the original place (and from another working directory), still holds the state it was saved in
                        p2 = Path(scratch) / "archived"
                        shutil.rmtree(p2, ignore_errors=True)
                        shutil.copytree(p, p2)
                        ctx.restore(s2)
                        ctx.iterate(rm, nxt_losses)
                        rm.save(p)
                        cwd = os.getcwd()
                        try:
                            os.chdir("/")
                            arch = GameRegretMinimizer.load(p2)
                        finally:
                            os.chdir(cwd)
                        st.evals += 1
                        if not (np.array_equal(np.asarray(arch.cumulative_regret), s2[0]) and np.array_equal(np.asarray(arch.cumulative_strategy), s2[1])
                                and arch.iteration == s2[2]):
                            st.violation(f"[regret n={n} limit={limit} plus={plus}] a COPY of the checkpoint directory, loaded after the original "
                                         f"directory was overwritten by a later save, does not hold the state it was saved in",
                                         history=[list(h) for h in hist + [losses]], saveload=True, **doc)
                            return st
                        ctx.restore(s2)
                    k = ctx.key(s2)
                    if k not in seen:
                        seen.add(k)
                        nxt.append((s2, hist + [losses]))
            frontier = nxt
    finally:
        if scratch:
            shutil.rmtree(scratch, ignore_errors=True)
    st.nontrivial += len(seen) - 1
    st.outcomes |= {hash(k) for k in itertools.islice(seen, 2000)}
    if n == 3 and limit == 2 and not plus:
        st.sample({"n": n, "limit": limit, "terminal_sets": ctx.terminals, "loss_alphabet_size": len(alpha), "depth": depth, "states": len(seen)})
    return st


def run(run: Run) -> None:
    quick = run.quick
    us = []
    for plus in (False, True):
        for limit in range(1, 6):
            us.append((3, limit, plus, 2 if quick else 3, False, True))
        for limit in range(1, 13):
            deep = limit in (1, 2, 3, 9, 10, 12)
            us.append((4, limit, plus, (2 if (deep and limit != 3) else 1) if quick else (2 if deep else 1), quick or limit == 3, limit in (1, 2, 10)))
        for limit in (1, 2, 3):
            us.append((5, limit, plus, 1 if quick or limit == 3 else 2, True, False))
    run.rule = ("construction for (n, limit, plus) in {3}x{1..5}, {4}x{1..12}, {5}x{1,2,3} x {plain, plus}: ranking bijection/order/inverse; BFS over "
                "iteration histories (states = both float32 tables + counter, de-duplicated): n=3 all terminal-value vectors over {0,1,2} to depth "
                "2 (thorough 3); n=4,5 alphabets {0, ones, unit vectors, size-graded} to depth 1-2; in every state and at EVERY node: current and "
                "average strategies are distributions with the stated support, regret increment orthogonal to the strategy played (plain), plus == "
                "max(before + plain increment, 0) via a plain twin, plus => regret >= 0; save->load->iterate == iterate. "
                "non-trivial = distinct states beyond the initial one")
    run.bounds = {"n": [3, 4, 5], "depth_n3": 2 if quick else 3, "depth_n4": "1-2", "depth_n5": "1-2"}
    run.assumptions = ["states are restored by assigning copies of the two tables and the counter into one live object; for n=3 every state "
                       "(otherwise one in 17) is re-derived on a fresh object by replaying its history",
                       "float32 tolerances: sums to 1 within 2e-5, orthogonality within 1e-4*scale"]
    order = sorted(us, key=lambda u: -(u[0] * 100 + u[3] * 10 + (u[1] if u[0] == 4 and u[1] <= 9 else 0)))
    run.add(fanout(unit, order, procs=12, chunk=1))


def replay(doc: dict):
    n, limit, plus = doc["n"], doc["limit"], doc["plus"]
    hist = [tuple(h) for h in doc.get("history", [])]
    st = Stats()
    rm = check_construction(st, n, limit, plus)
    if rm is None:
        return True, "; ".join(v["message"] for v in st.violations)
    ctx = Ctx(rm, n, limit, plus)
    msgs = []
    try:
        for i, losses in enumerate(hist):
            snap = ctx.snapshot()
            m = step_checks(ctx, snap, losses, hist[:i])
            if m:
                msgs.append(f"iteration {i + 1}: {m}")
        m = ctx.invariants(rm)
        if m:
            msgs.append(m)
    except Exception as e:  # noqa: BLE001
        msgs.append(f"raised {type(e).__name__}: {e}")
    return bool(msgs), f"replay regret n={n} limit={limit} plus={plus} history={hist}: " + ("; ".join(msgs) if msgs else "all invariants hold")
