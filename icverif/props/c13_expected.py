"""Expected-greedy search part of C13: get_greedy_rewards under every schedule of the deterministic pool (E2)."""
from __future__ import annotations

import itertools

import numpy as np

from .. import alphabets as A
from .. import detpool, envs, gaps, gens
from ..core import Run, Stats, fanout
from .c11 import gap_of


def expected_unit(u) -> Stats:
    n, games, comp, gap_name, max_steps, reps, scheds, tag = u[:8]
    randomized = bool(u[8]) if len(u) > 8 else False     # the 'ugreedy' command: ties within 1e-6 broken by a seeded random.Random
    slack = 1e-6 if randomized else 0.0
    import incomplete_cooperative.gameplay as gp
    from incomplete_cooperative.run.greedy import get_greedy_rewards
    st = Stats()
    ftol = 0.0
    resolved = []
    for g in games:
        if isinstance(g, tuple) and g and g[0] == "GEN":
            g = gens.draw(g[1], g[2], g[3])
            ftol = max(ftol, gens.float_tol(g, n))
        resolved.append(tuple(g))
    doc = {"engine": "expected-greedy", "n": n, "games": [list(g) for g in resolved], "computer": comp, "gap": gap_name, "max_steps": max_steps,
           "reps": reps, "tag": tag, "randomized": randomized}
    base = A.kmask(A.minimal_ids(n))
    ex = A.explorable_ids(n)
    first = None
    for p, name, a in scheds:
        script = envs.Script(resolved)
        env = envs.make_env(n, script, comp, gaps.registry()[gap_name])
        start = script.calls
        sch = detpool.Schedule(lambda m, pp, a=a: [a[i % len(a)] % pp for i in range(m)], name, max_workers=max(a) + 1)
        try:
            with detpool.patched([gp], sch):
                if randomized:
                    import random as _random
                    curve, chosen = get_greedy_rewards(env, max_steps, reps, gaps.registry()[gap_name], processes=p, random=_random.Random(17))
                else:
                    curve, chosen = get_greedy_rewards(env, max_steps, reps, gaps.registry()[gap_name], processes=p)
        except Exception as e:  # noqa: BLE001
            st.violation(f"[expected greedy n={n} {tag} p={p} {name}] raised {type(e).__name__}: {e}", processes=p, assignment=a, **doc)
            return st
        st.transitions += len(sch.log)
        st.states += 1
        used = [resolved[(start + i) % len(resolved)] for i in range(reps)]
        curve = np.asarray(curve, dtype=np.float64)
        msg = None
        if curve.shape != (max_steps + 1, reps) or len(chosen) != max_steps:
            msg = f"result shapes {curve.shape} / {len(chosen)} for max_steps={max_steps}, repetitions={reps}"
        elif len(set(chosen)) != len(chosen) or any(c not in ex for c in chosen):
            msg = f"chosen sequence {chosen} repeats a coalition or names a non-explorable one"
        else:
            K = base
            prev = None
            for t in range(max_steps + 1):
                if t > 0:
                    K |= 1 << chosen[t - 1]
                col, tolmax = [], 0.0
                for g in used:
                    w, tol = gap_of(n, comp, g, K, gap_name, ftol)
                    col.append(w)
                    tolmax = max(tolmax, tol)
                st.evals += 1
                if any(abs(float(curve[t][i]) - col[i]) > tolmax for i in range(reps)):
                    msg = f"row {t} = {curve[t].tolist()} is not the per-game gap {col} after revealing {chosen[:t]}"
                    break
                mean = float(np.mean(col))
                if t > 0:
                    # greedy rule: no alternative one-coalition extension of the previous prefix has a smaller mean gap
                    Kp = K & ~(1 << chosen[t - 1])
                    for alt in ex:
                        if Kp >> alt & 1:
                            continue
                        am = float(np.mean([gap_of(n, comp, g, Kp | 1 << alt, gap_name, ftol)[0] for g in used]))
                        if am < mean - 2 * tolmax - slack:
                            msg = f"step {t}: extended by coalition {chosen[t - 1]} (mean gap {mean}) although coalition {alt} gives {am}"
                            break
                    if msg:
                        break
                    if mean > prev + 2 * tolmax:
                        msg = f"gap curve increases from {prev} to {mean} at step {t}"
                        break
                # never below the exhaustive optimum; equal to it for zero and one reveals
                opt = min(float(np.mean([gap_of(n, comp, g, base | A.kmask(c), gap_name, ftol)[0] for g in used]))
                          for c in itertools.combinations(ex, t))
                if mean < opt - 2 * tolmax:
                    msg = f"step {t}: mean gap {mean} is below the exhaustive optimum {opt} (impossible for true values)"
                    break
                if t <= 1 and mean > opt + 2 * tolmax + slack:
                    msg = f"step {t}: mean gap {mean} differs from the exhaustive optimum {opt}, with which greedy must coincide for {t} reveals"
                    break
                prev = mean
                st.nontrivial += 1
        if msg:
            st.violation(f"[expected greedy n={n} {tag} {comp} {gap_name} p={p} {name} {a}] {msg}", processes=p, assignment=a, **doc)
            if st.nviol >= 3:
                return st
            continue
        key = (curve.tobytes(), tuple(chosen))
        if first is None:
            first = (p, name, a, key)
        elif key != first[3]:
            st.violation(f"[expected greedy n={n} {tag}] the result depends on the schedule: p={p} {name} {a} vs p={first[0]} {first[1]} {first[2]}",
                         processes=p, assignment=a, **doc)
        st.outcomes.add(hash(key))
    st.traces += 1
    if n == 3 and reps == 2 and max_steps == 3:
        st.sample({"expected_greedy": doc, "schedules": [(p, nm, a) for p, nm, a in scheds]})
    return st


def schedules(reps: int, quick: bool):
    out = [(1, "p1", [0])]
    for p in ((2, 3, 4, 16) if not quick else (2, 4, 16)):
        m = len(detpool.chunking(reps, p))
        for name, a in detpool.schedules_for(m, p, 5):
            out.append((p, name, a))
    return out


def run_expected(run: Run) -> None:
    seed, quick = run.seed, run.quick
    g3 = A.a3_sa()
    reps4 = A.a4_sa_reps(seed)
    picks3 = [A.shifted(g3[(83 * (seed + 1) + 191 * k) % len(g3)], A.ADD3) if k % 2 else g3[(83 * (seed + 1) + 191 * k) % len(g3)] for k in range(4)]
    picks4 = [A.shifted(reps4[(23 * (seed + 1) + 41 * k) % len(reps4)], A.ADD4) for k in range(3)]
    us = []
    for reps in (1, 2, 3):
        for max_steps in (0, 1, 2, 3):
            if quick and (reps + max_steps + seed) % 2:
                continue
            comp = ("superadditive", "superadditive_cached")[(reps + max_steps) % 2]
            us.append((3, picks3[:3], comp, gaps.NAMES[(reps + max_steps) % 4], max_steps, reps, schedules(reps, quick), f"exact3-r{reps}-s{max_steps}"))
    us.append((3, [("GEN", "noisy_factory", 3, seed), ("GEN", "noisy_factory", 3, seed + 1)], "superadditive_cached", "exploitability", 3, 2,
               schedules(2, True), "gen3"))
    for reps, max_steps in (((2, 2),) if quick else ((1, 4), (2, 3), (3, 2), (2, 4))):
        us.append((4, picks4, "superadditive_cached", "l1_norm", max_steps, reps, schedules(reps, True), f"exact4-r{reps}-s{max_steps}"))
    # norms that are not submodular in the revealed set (l2 / l-infinity), several steps, games with complementarities
    small = [(1, "p1", [0]), (2, "round-robin", [0, 1])]
    for gi, gap_name in enumerate(("l2_norm", "linf_norm")):
        us.append((4, picks4[gi:] + picks4[:gi], "superadditive_cached", gap_name, 4 if quick else 6, 1 + gi, small, f"exact4-{gap_name}"))
        us.append((4, [("GEN", "graph_random", 4, seed + gi), ("GEN", "xos", 4, seed + 3 + gi)], "superadditive", gap_name, 3 if quick else 5, 2, small,
                   f"gen4-{gap_name}"))
    # l-infinity is flat in most directions (only the widest interval counts): a coalition that helps NO sampled game now may be the best
    # one two steps later; several different games per configuration, long sequences
    fam = [n_ for n_ in ("xs", "xs", "xos", "xs", "xs2", "xs", "oxs", "graph_random") if n_ in gens.names()]
    for k in range(16 if quick else 64):
        gs = [("GEN", fam[k % len(fam)], 4, gens.seed_window(seed, 1)[0] + 7 * k + j) for j in range(4 if k % 4 else 2)]   # one family per configuration
        us.append((4, gs, ("superadditive", "superadditive_cached")[k % 2], "linf_norm", 6, len(gs), [(1, "p1", [0])], f"gen4-linf-{fam[k % len(fam)]}#{k}"))
    # discrete generators repeat games: the mean is over the SAMPLES (equal games with unequal multiplicities weigh accordingly)
    k = 0
    for a in range(3):
        for b in range(3):
            if a == b:
                continue
            for mult in ((3, 1), (1, 3)):
                for gap_name in ("l1_norm", "exploitability"):
                    gs4 = [picks4[a]] * mult[0] + [picks4[b]] * mult[1]
                    us.append((4, gs4, ("superadditive", "superadditive_cached")[k % 2], gap_name, 3, 4, [(1, "p1", [0])], f"dup4-{a}{b}-{mult[0]}{mult[1]}"))
                    k += 1
    gs3 = [picks3[0]] * 3 + [picks3[1]] + [picks3[2]] * 2
    us.append((3, gs3, "superadditive", "l1_norm", 3, 6, [(1, "p1", [0]), (2, "round-robin", [0, 1])], "dup3-312"))
    # tiny units: every mean gap (and every difference between candidates) is far below 1e-6 in absolute terms
    us.append((3, [A.scaled(g, A.TINY) for g in picks3[:3]], "superadditive", "l1_norm", 3, 2, schedules(2, True), "tiny3"))
    us.append((4, [A.scaled(g, A.TINY) for g in picks4[:2]], "superadditive_cached", "exploitability", 3, 2, [(1, "p1", [0]), (2, "round-robin", [0, 1])], "tiny4"))
    # the randomised variant ('ugreedy'): same rule up to the documented 1e-6 tie window; symmetric games so that ties really occur
    sym3 = tuple(float(A.popcount(s) ** 2) for s in range(8))
    sym4 = tuple(float(A.popcount(s) ** 2) for s in range(16))
    us.append((3, [sym3, picks3[0]], "superadditive", "l1_norm", 3, 2, schedules(2, True), "ugreedy3", True))
    us.append((4, [sym4], "superadditive_cached", "exploitability", 3, 1, [(1, "p1", [0]), (2, "round-robin", [0, 1])], "ugreedy4", True))
    total = fanout(expected_unit, sorted(us, key=lambda u: -(u[0] ** 3 * u[4] * len(u[6]))), procs=8, chunk=1)
    total.count("expected_greedy_configurations", len(us))
    run.add(total)
    run.rule += (" | expected greedy: get_greedy_rewards on scripted game sets of size 1..3, step limits 0..3 (n=3) / up to 4 (n=4), every worker count in "
                 "{1,2,(3),4,16} x every chunk->worker assignment on the deterministic pool: rows = per-game gaps of the chosen prefix, each extension "
                 "minimises the mean gap over all alternatives, no repeats, curve non-increasing, never below the exhaustive optimum and equal to it for 0 "
                 "and 1 reveals, identical for all schedules")


def replay_expected(doc: dict):
    p = doc.get("processes", 1)
    a = doc.get("assignment", [0])
    st = expected_unit((doc["n"], [tuple(g) for g in doc["games"]], doc["computer"], doc["gap"], doc["max_steps"], doc["reps"], [(p, "replay", a)], "replay",
                        bool(doc.get("randomized"))))
    msgs = [v["message"] for v in st.violations]
    return bool(msgs), "; ".join(msgs) if msgs else "expected-greedy search behaves as specified on this configuration"
