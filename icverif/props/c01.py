"""C01 — superadditive bounds always contain the true game (DESIGN §6 C01)."""
from __future__ import annotations

from .. import alphabets as A
from .. import gens
from ..core import Run, Stats, fanout
from ..lattice import Checker, LatticeRun, Tab, replay_lattice

COMPUTERS = ("superadditive", "superadditive_cached")


class Sound(Checker):
    """lower <= v <= upper, lower <= upper, known rows exactly v — on every clean state."""

    def __init__(self, v, tol: float = 0.0) -> None:
        self.v = v
        self.tol = tol
        self.nontrivial = set()

    def clean(self, K: int, tab: Tab, how: str) -> str | None:
        v, tol = self.v, self.tol
        lo, up = tab.lo, tab.up
        for s in range(len(v)):
            l, u, x = float(lo[s]), float(up[s]), v[s]
            if K >> s & 1:
                if l != x or u != x:
                    return f"known coalition {s}: interval [{l}, {u}] is not exactly its value {x}"
            else:
                if not (l <= u + tol):
                    return f"coalition {s}: lower {l} > upper {u}"
                if not (l <= x + tol):
                    return f"coalition {s}: lower bound {l} exceeds the true value {x} (knowledge {A.kmask_ids(K)})"
                if not (x <= u + tol):
                    return f"coalition {s}: upper bound {u} is below the true value {x} (knowledge {A.kmask_ids(K)})"
                if u - l > tol:
                    self.nontrivial.add(K)
        return None


def unit(u) -> Stats:
    n, tag, v, modes, tol = u
    st = Stats()
    for comp in (COMPUTERS if "cached-only" not in modes else COMPUTERS[1:]):
        chk = Sound(v, tol)
        lr = LatticeRun(n, v, comp, chk, st, tag)
        if "fresh" in modes:
            if n <= 4:
                Ks = None
            elif n == 5:
                Ks = list(A.layered_knowledge(n, 2))
            elif "few" in modes:
                Ks = A.few_knowledge(n)
            else:
                Ks = list(A.layered_knowledge(n, 1)) + (list(A.distance2_knowledge(n)) if "pairs" in modes else [])
            lr.fresh(Ks=Ks)
        if "euler" in modes:
            lr.euler()
        if "dirty2" in modes:
            lr.dirty(2, resets=True)
        elif "dirty1" in modes:
            lr.dirty(1, resets=True)
        if "prelife" in modes:
            # the object served another game before (bounds computed at minimal knowledge), was bulk-reset to this one, and
            # the first reveal arrives before any compute
            top = (1 << n) - 1
            for v2 in (tuple(1 if s == top else 0 for s in range(1 << n)), tuple(1000 * A.popcount(s) ** 2 for s in range(1 << n))):
                lr.v2, lr.alt_ops = v2, False
                lr.dirty(1, resets=False, prelife=True)
            lr.v2, lr.alt_ops = None, True
        st.nontrivial += len(chk.nontrivial)
    if u[0] == 3 and tag.startswith("shift"):
        st.sample({"n": n, "tag": tag, "values": list(v), "modes": list(modes)})
    return st


def layered_game(n: int, kind: str) -> tuple:
    if kind == "sq":
        return tuple(A.popcount(s) ** 2 for s in range(1 << n))
    k = max(1, n // 2)
    return tuple(-min(k, A.popcount(s)) for s in range(1 << n))


def units(run: Run):
    seed, quick = run.seed, run.quick
    us = []
    g3 = A.a3_sa() if quick else A.a3_sa((-2, -1, 0, 1, 2))
    for i, g in enumerate(g3):
        for tag, gv in A.with_shifts([g], 3):
            us.append((3, f"{tag}#{i}", gv, ("fresh", "euler") + (("dirty2", "prelife") if tag == "shift" else ("dirty1",)), 0.0))
        for tag, gv in A.with_scales([g], 3):      # huge additive part with a small surplus on top; tiny units
            us.append((3, f"{tag}#{i}", gv, ("fresh", "euler"), 0.0))
    if quick:
        reps = A.a4_sa_reps(seed)
        for i, g in enumerate(reps):
            variants = A.all_variants(g, 4)
            tag, gv = variants[(i + seed) % 5]
            modes = ("fresh", "euler") if i % 12 == seed % 12 else ("fresh",)
            us.append((4, f"{tag}#{i}", gv, modes, 0.0))
    else:
        for i, g in enumerate(A.a4_sa_full()):
            variants = A.all_variants(g, 4)
            for j, (tag, gv) in enumerate(variants):
                modes = ("fresh", "euler") if (i % 16 == seed % 16 and j == 1) else ("fresh",)
                us.append((4, f"{tag}#{i}", gv, modes, 0.0))
        for i, g in enumerate(A.a4_sa_full((0, 1, 2))):
            if i % 8 == seed % 8:
                us.append((4, f"pairs012#{i}", g, ("fresh",), 0.0))
        for i, g in enumerate(A.a4_sa_reps(seed)):
            if i % 30 == seed % 30:
                us.append((4, f"shift-dirty#{i}", A.shifted(g, A.ADD4), ("dirty1",), 0.0))
    # n = 5: layered knowledge sets on exact games
    for kind in ("sq", "budget"):
        g = layered_game(5, kind)
        us.append((5, f"layer-{kind}", A.shifted(g, (1, -1, 2, 0, 3)), ("fresh",), 0.0))
    convex5 = tuple(A.popcount(s) * (A.popcount(s) - 1) // 2 for s in range(32))
    for i, g in enumerate(A.a5_pair_closure_reps()):
        if quick and i % 3 != seed % 3:
            continue
        gv = A.shifted(g, (1, -1, 2, 0, 3)) if i % 4 < 2 else tuple(a + b for a, b in zip(g, convex5))
        us.append((5, f"pairgraph#{i}", gv, ("fresh",), 0.0))
    # larger player counts (thresholds at 6, 8): structurally different exact games, knowledge within distance 1 of minimal / full,
    # size layers, and (n = 6) EVERY pair of revealed coalitions
    for n in ((6,) if quick else (6, 7, 8)):
        for tag, gv in A.larger_n_samples(n):
            if quick and not tag.startswith(("matching", "path-shift", "two-cliques")):
                continue
            us.append((n, f"n{n}:{tag}", gv, ("fresh", "pairs") if n == 6 else ("fresh",), 0.0))
    # beyond one machine byte of players: n = 9, 10 (the memoised structure and the cached computer only; the uncached one needs seconds per
    # compute there), negative and mixed-sign exact games, a dozen knowledge sets
    for n in ((9,) if quick else (9, 10)):
        us.append((n, f"n{n}:budget3", A.budget_game(n, 3), ("fresh", "few", "cached-only"), 0.0))
        us.append((n, f"n{n}:convex-shift", A.shifted(A.convex_game(n), A.SHIFT_LONG[:n]), ("fresh", "few", "cached-only"), 0.0))
    # the uncached computer at n = 9 as well, near the minimal information (ids above 256, negative and unequal singleton values)
    us.append((9, "n9:convex-shift/both", A.shifted(A.convex_game(9), A.SHIFT_LONG[:9]), ("fresh", "few"), 0.0))
    us.append((9, "n9:budget3/both", A.budget_game(9, 3), ("fresh", "few"), 0.0))
    for n in (7, 8):
        us.append((n, f"n{n}:budget2", A.budget_game(n, 2), ("fresh", "few") if quick else ("fresh",), 0.0))
    # float-valued generator families (tolerance G2)
    width = 2 if quick else 8
    for name in gens.SA_FAMILIES:
        for n in ((3, 4) if quick else (3, 4, 5)):
            for s in gens.seed_window(seed, width):
                if n == 5 and s != gens.seed_window(seed, width)[0]:
                    continue
                us.append((n, f"gen:{name}:{s}", ("GEN", name, n, s), ("fresh", "euler") if n == 3 else ("fresh",), None))
    return us


def resolve(u):
    n, tag, v, modes, tol = u
    if isinstance(v, tuple) and v and v[0] == "GEN":
        vals = gens.draw(v[1], v[2], v[3])
        return (n, tag, vals, modes, gens.float_tol(vals, n))
    return u


def unit_resolved(u) -> Stats:
    return unit(resolve(u))


def run(run: Run) -> None:
    us = units(run)
    run.rule = ("hidden games enumerated completely: A3-SA x {plain, additive shift, dyadic, huge additive part 2^20*a, tiny units 2^-30}; A4-SA closure-rule games "
                "(quick: one representative per relabelling class, thorough: all 2048 x 3 variants + 1/8 of pairs in {0,1,2}); "
                "n=5 layered K on two exact games and 34 pair-graph games; n=6 (thorough 7, 8) structurally different exact games with every K within distance 1 of "
                "minimal/full, size layers and (n=6) every pair of revealed coalitions; float generator families in a seed window. Per game and computer: "
                "fresh object at EVERY knowledge set, Euler walk over every lattice edge on one long-lived object, "
                "BFS over dirty runs <= 2 (n=3). non-trivial = distinct (game, computer, K) with at least one non-degenerate interval")
    run.bounds = {"n": [3, 4, 5, 6, 7, 8, 9] if run.quick else [3, 4, 5, 6, 7, 8, 9, 10], "dirty_run": 2, "computers": list(COMPUTERS), "units": len(us),
                  "seed_window_width": 2 if run.quick else 8}
    run.assumptions = ["float generator games are compared with tolerance 64*n*2^-53*scale (G2); exact alphabets with ==",
                       "n>=5 is covered on layered knowledge sets only (Hamming distance <= 2 of minimal/full plus size layers)"]
    us.sort(key=lambda u: -u[0])
    run.add(fanout(unit_resolved, us, chunk=8))
    run.exhaustive = True


def replay(doc: dict):
    return replay_lattice(doc, lambda d: Sound(d["values"], gens.float_tol(d["values"], d["n"]) if str(d.get("tag", "")).startswith("gen:") else 0.0))
