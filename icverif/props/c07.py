"""C07 — more information never hurts: intervals shrink, every gap is non-increasing (DESIGN §6 C07)."""
from __future__ import annotations

import numpy as np

from .. import alphabets as A
from .. import gaps, gens
from ..core import Run, Stats, fanout
from ..lattice import Checker, LatticeRun, Tab, replay_lattice


class Shrink(Checker):
    def __init__(self, n: int, v, tol: float = 0.0, gap_memo: dict | None = None) -> None:
        self.n, self.v, self.tol = n, v, tol
        self.exact = tol == 0.0
        # gap values depend on the table only, not on the computer that produced it: memo shared within a unit
        self.gap: dict[bytes, dict[str, float]] = gap_memo if gap_memo is not None else {}
        self.full = (1 << (1 << n)) - 1
        self.nontrivial = set()
        self.gaps_on = True

    def clean(self, K: int, tab: Tab, how: str) -> str | None:
        if tab.key in self.gap or not self.gaps_on:
            return None
        g = self.live
        reg = gaps.registry()
        vals = {}
        lo, up = tab.lo.tolist(), tab.up.tolist()
        for name in gaps.NAMES:
            try:
                got = float(reg[name](g))
            except Exception as e:  # noqa: BLE001
                return f"gap function {name} raised {type(e).__name__}: {e} at knowledge {A.kmask_ids(K)}"
            want = gaps.oracle(name, lo, up, self.n, self.exact)
            t = gaps.tol_for(name, lo, up, self.n, self.exact) + 1e-12 * abs(want)
            if abs(got - want) > t:
                return (f"gap function {name} returned {got} but the {name} of the interval widths is {want} "
                        f"(knowledge {A.kmask_ids(K)}, lower={lo}, upper={up})")
            if got < -t:
                return f"gap function {name} is negative ({got}) at knowledge {A.kmask_ids(K)}"
            if K == self.full and abs(got) > t:
                return f"gap function {name} is {got}, not 0, although every value is revealed"
            vals[name] = (got, t)
        self.gap[tab.key] = vals
        return None

    def edge(self, K0: int, t0: Tab, S: int, K1: int, t1: Tab, how: str) -> str | None:
        tol = self.tol
        if np.any(t1.lo < t0.lo - tol):
            s = int(np.flatnonzero(t1.lo < t0.lo - tol)[0])
            return (f"revealing coalition {S} at knowledge {A.kmask_ids(K0)} LOWERED the lower bound of coalition {s}: "
                    f"{float(t0.lo[s])} -> {float(t1.lo[s])}")
        if np.any(t1.up > t0.up + tol):
            s = int(np.flatnonzero(t1.up > t0.up + tol)[0])
            return (f"revealing coalition {S} at knowledge {A.kmask_ids(K0)} RAISED the upper bound of coalition {s}: "
                    f"{float(t0.up[s])} -> {float(t1.up[s])}")
        g0, g1 = self.gap.get(t0.key), self.gap.get(t1.key)
        if g0 is not None and g1 is not None:
            for name in gaps.NAMES:
                (a, ta), (b, tb) = g0[name], g1[name]
                if b > a + max(ta, tb):
                    return f"gap {name} increased from {a} to {b} when coalition {S} was revealed at knowledge {A.kmask_ids(K0)}"
        if np.any(t1.lo != t0.lo) or np.any(t1.up != t0.up):
            self.nontrivial.add((K0, S))
        return None

    def recheck(self, K, tab, history):
        return self.clean(K, tab, "replay")


def wc6_unit(u) -> Stats:
    _, games, comps = u
    from .. import sam6
    st = Stats()
    for tag, v in games:
        memo: dict = {}
        for comp in comps:
            chk = Shrink(6, v, 0.0, memo)
            chk.gaps_on = False
            sam6.sublattice(st, v, comp, chk, tag)
            probes = [c for c in A.explorable_ids(6)] if tag.endswith(":sensitive") else sam6.probe_coalitions()
            sam6.star(st, v, comp, chk, tag, probes, compare_canonical=False)
            st.nontrivial += len(chk.nontrivial)
            if st.nviol >= 3:
                return st
    return st


def unit(u) -> Stats:
    if u[0] == "wc6":
        return wc6_unit(u)
    if u[0] == "env":
        return env_unit(u)
    n, tag, v, comps, modes, tol = u
    if isinstance(v, tuple) and v and v[0] == "GEN":
        v = gens.draw(v[1], v[2], v[3])
        tol = gens.float_tol(v, n)
    if tol == "float":
        tol = gens.float_tol(v, n)
    st = Stats()
    memo: dict = {}
    for comp in comps:
        chk = Shrink(n, v, tol, memo)
        chk.gaps_on = n == 3 or "gaps" in modes
        lr = LatticeRun(n, v, comp, chk, st, tag)
        lr.fresh(Ks=None if n <= 4 else list(A.layered_knowledge(n, 1)) + list(A.distance2_knowledge(n, 400)))
        lr.edges_from_tables()
        if "euler" in modes:
            lr.euler()
        st.nontrivial += len(chk.nontrivial)
    if n == 3 and tag == "shift#9":
        st.sample({"n": n, "values": list(v), "computers": list(comps), "edges": 12, "modes": list(modes)})
    return st


def env_unit(u) -> Stats:
    """Gym level: along EVERY reveal order after EVERY reset of one long-lived environment (scripted, differing hidden games)
    no interval widens and the reward (negated gap) never decreases; it ends at 0."""
    _, n, games, comp, gap_name, known_extra, tag = u
    from .. import envs
    from ..envmodel import EnvCfg, snapshot
    from ..lattice import read
    st = Stats()
    cfg = EnvCfg(n, games, comp, gap_name, None, tag, 0.0, known_extra)
    env, script = cfg.make()
    m = len(cfg.ex)
    for rnd in range(len(games) + 1):
        if rnd:
            env.reset()
        root = snapshot(env)
        stack = [(root, [], read(root.incomplete_game), float(root.reward))]
        while stack:
            e, order, tab, rew = stack.pop()
            st.states += 1
            if len(order) == m:
                st.evals += 1
                if abs(rew) > 1e-9:
                    st.violation(f"[env {tag} n={n} {comp} {gap_name}] after reset #{rnd} and revealing everything in order {order} the gap is {-rew}, not 0",
                                 engine="env-paths", n=n, games=[list(g) for g in games], computer=comp, gap=gap_name, resets=rnd, order=order,
                                 known_extra=list(known_extra))
                continue
            for a in range(m):
                if a in order:
                    continue
                e2 = snapshot(e)
                _, r2, _, _, _ = e2.step(a)
                t2 = read(e2.incomplete_game)
                st.transitions += 1
                st.evals += 1
                msg = None
                if np.any(t2.lo < tab.lo) or np.any(t2.up > tab.up):
                    s = int(np.flatnonzero((t2.lo < tab.lo) | (t2.up > tab.up))[0])
                    msg = (f"interval of coalition {s} widened from [{float(tab.lo[s])}, {float(tab.up[s])}] to [{float(t2.lo[s])}, {float(t2.up[s])}]")
                elif float(r2) < rew - 1e-9 * max(1.0, abs(rew)):
                    msg = f"gap increased from {-rew} to {-float(r2)}"
                elif float(r2) > 1e-9:
                    msg = f"gap is negative ({-float(r2)})"
                if msg:
                    st.violation(f"[env {tag} n={n} {comp} {gap_name}] after reset #{rnd}, reveals {order}, revealing action {a} (coalition {cfg.ex[a]}): {msg}",
                                 engine="env-paths", n=n, games=[list(g) for g in games], computer=comp, gap=gap_name, resets=rnd, order=order + [a],
                                 known_extra=list(known_extra))
                    if st.nviol >= 3:
                        return st
                    continue
                if np.any(t2.lo != tab.lo) or np.any(t2.up != tab.up):
                    st.nontrivial += 1
                stack.append((e2, order + [a], t2, float(r2)))
    st.traces += 1
    return st


SA = ("superadditive", "superadditive_cached")
SAM_SHIFT3 = (-1, -2, 0)
SAM_SHIFT4 = (-1, -2, 0, -1)


def units(run: Run):
    seed, quick = run.seed, run.quick
    us = []
    for i, g in enumerate(A.a3_sa()):
        for tag, gv in A.with_shifts([g], 3):
            us.append((3, f"{tag}#{i}", gv, SA, ("euler",), 0.0))
        if i % 2 == seed % 2 or not quick:
            for tag, gv in A.with_scales([g], 3):
                us.append((3, f"{tag}#{i}", gv, SA, (), 0.0))
        if i % 4 == seed % 4 or not quick:
            # large NON-integer values with a small surplus (sums of squares are far from exactly representable)
            third = tuple(x / 3.0 for x in A.shifted(g, tuple(A.BIG * y for y in (1, -1, 2))))
            us.append((3, f"bigthird#{i}", third, SA, (), "float"))
    games4 = list(enumerate(A.a4_sa_reps(seed)))
    if not quick:
        games4 = [(i, g) for i, g in enumerate(A.a4_sa_full()) if i % 2 == seed % 2]
    for i, g in games4:
        variants = A.all_variants(g, 4)
        tag, gv = variants[(i + seed) % 5]
        modes = ("euler",) if i % (30 if quick else 128) == seed % (30 if quick else 128) else ()
        if not quick or i % 3 == seed % 3:
            modes += ("gaps",)
        us.append((4, f"{tag}#{i}", gv, SA, modes, 0.0))
    # SAM computers on SAM games
    for i, g in enumerate(A.a3_sam()):
        for tag, gv in (("plain", g), ("shift", A.shifted(g, SAM_SHIFT3)), ("dyadic", A.scaled(g, 0.25))):
            us.append((3, f"sam-{tag}#{i}", gv, ("sam_apx_1", "sam_apx_10", "sam_apx_100"), ("euler",), 0.0))
        us.append((3, f"sam-bigshift#{i}", A.shifted(g, (-A.BIG, -2 * A.BIG, 0.0)), ("sam_apx_1", "sam_apx_10"), (), 0.0))
        if i % (6 if quick else 1) == seed % (6 if quick else 1):
            us.append((3, f"sam-plain#{i}", g, ("sam_apx_1000",), (), 0.0))
    sam4 = A.a4_sam() if quick else A.a4_sam((-3, -2, -1, 0))
    for i, g in enumerate(sam4):
        if not quick and i % 4 != seed % 4:
            continue
        gv = A.shifted(g, SAM_SHIFT4) if i % 2 else g
        us.append((4, f"sam#{i}", gv, ("sam_apx_1",), ("gaps",) if (not quick or i % 4 == seed % 4) else (), 0.0))
        if i % (5 if quick else 3) == seed % (5 if quick else 3):
            us.append((4, f"sam#{i}", gv, ("sam_apx_10",), (), 0.0))
    two_valued = [g for g in A.a4_sam() if set(g) <= {0, -1}]
    for i, g in enumerate(two_valued):
        if quick and i % 8 != seed % 8:
            continue
        us.append((4, f"sam01#{i}", g, ("sam_apx_100",), (), 0.0))
    from .. import sam6
    sel = sam6.sensitive_first(list(sam6.family(dense_only=True)), every=12 if quick else 3)
    for i in range(0, len(sel), 6):
        us.append(("wc6", sel[i:i + 6], ("sam_apx_1",) if quick else ("sam_apx_1", "sam_apx_10")))
    # gym level: every reveal order after every reset of one long-lived env with differing scripted hidden games
    g3 = A.a3_sa()
    trip3 = [A.shifted(g3[(41 * (seed + 1) + 331 * k) % len(g3)], A.ADD3) if k % 2 else g3[(41 * (seed + 1) + 331 * k) % len(g3)] for k in range(3)]
    reps4 = A.a4_sa_reps(seed)
    trip4 = [A.shifted(reps4[(9 * (seed + 1) + 77 * k) % len(reps4)], A.ADD4) for k in range(2)]
    triples = tuple(s for s in range(16) if A.popcount(s) == 3)
    pairs = tuple(s for s in range(16) if A.popcount(s) == 2)
    for ci, comp in enumerate(SA):
        for gi, gap_name in enumerate(gaps.NAMES):
            us.append(("env", 3, trip3, comp, gap_name, (), "paths3"))
            if (ci + gi) % 2 == 0 or not quick:
                us.append(("env", 4, trip4, comp, gap_name, triples if gi % 2 else pairs, "paths4"))
    sam3 = A.a3_sam()
    us.append(("env", 3, [sam3[(13 * seed + 5) % len(sam3)], sam3[(29 * seed + 77) % len(sam3)]], "sam_apx_10", "l1_norm", (), "paths3-sam"))
    # larger player counts: edges minimal -> minimal+S -> minimal+S+T and full-S -> full, on structurally different exact games
    for n in ((5, 6) if quick else (5, 6, 7)):
        for tag, gv in (A.larger_n_samples(n) if n >= 6 else [("pairgraph", A.shifted(g, A.SHIFT_LONG[:5])) for g in A.a5_pair_closure_reps()[seed % 7::7]]):
            if quick and n == 6 and not tag.startswith(("matching-shift", "star+convex")):
                continue
            us.append((n, f"n{n}:{tag}", gv, SA if n == 5 else SA[1:], ("gaps",), 0.0))
        for k in (1, n // 2, n - 1):
            g = tuple(float(-min(k, A.popcount(s))) for s in range(1 << n))
            us.append((n, f"budget{n}-{k}", g, ("sam_apx_1",), ("gaps",) if n == 5 else (), 0.0))
    width = 2 if quick else 6
    for name in gens.SA_FAMILIES:
        comps = SA + (("sam_apx_1", "sam_apx_10") if gens.is_sam_family(name) else ())
        for n in (3, 4):
            for s in gens.seed_window(seed, width):
                if n == 4 and s != gens.seed_window(seed, width)[0]:
                    continue
                us.append((n, f"gen:{name}:{s}", ("GEN", name, n, s), comps if n == 3 else comps[1:], ("gaps",), None))
    return us


def cost(u) -> float:
    if u[0] == "wc6":
        return 4000
    if u[0] == "env":
        return 30 if u[1] == 4 else 3
    n, comps = u[0], u[3]
    if n >= 5:
        return 400 * (n - 4) * len(comps)
    w = {"superadditive": 2, "superadditive_cached": 1, "sam_apx_1": 2, "sam_apx_10": 8, "sam_apx_100": 60, "sam_apx_1000": 500}
    return (1 if n == 3 else 100) * sum(w[c] for c in comps) * (10 if "euler" in u[4] and n == 4 else 1)


def run(run: Run) -> None:
    us = units(run)
    run.rule = ("every reveal edge (K, K+{S}) of the complete knowledge lattice (12 edges n=3, 5120 edges n=4) for every hidden game of the class "
                "matching the computer: component-wise interval inclusion and non-increase of all four gap functions, each gap compared with its "
                "first-principles value, >= 0, and 0 at full knowledge; edges judged on canonical tables AND traversed by real reveal/un-reveal on "
                "one long-lived object (Euler walk); gym level: every reveal order after every reset of one long-lived env with differing hidden games. non-trivial = distinct (game, computer, edge) on which some bound actually moved")
    run.bounds = {"n": [3, 4, 5, 6] if run.quick else [3, 4, 5, 6, 7], "units": len(us), "sam_apx_1000": "n=3 only", "sam_apx_100": "n=3 all K; n=4 on two-valued games"}
    run.assumptions = ["quick tier, n=4: the real gap functions are evaluated on every state of one third of the games (all games in the "
                       "thorough tier); interval inclusion is checked on every edge of every game",
                       "exploitability and l2 compared within 64*2^n*n*2^-53*scale; l1 and l-infinity exactly on exact inputs"]
    us.sort(key=lambda u: -cost(u))
    run.add(fanout(unit, us, chunk=1))


def replay(doc: dict):
    if doc.get("engine") == "env-paths":
        st = env_unit(("env", doc["n"], [tuple(g) for g in doc["games"]], doc["computer"], doc["gap"], tuple(doc.get("known_extra", ())), "replay"))
        msgs = [v["message"] for v in st.violations]
        return bool(msgs), "; ".join(msgs[:3]) if msgs else "no interval widens and no gap increases along any reveal order after any reset"
    is_gen = str(doc.get("tag", "")).startswith("gen:")

    class Live(Shrink):
        pass

    def mk(d):
        c = Live(d["n"], d["values"], gens.float_tol(d["values"], d["n"]) if is_gen else 0.0)
        return c
    # the generic replay has no live object: rebuild it
    from ..lattice import read, run_history
    hist = [tuple(h) for h in doc["history"]]
    chk = mk(doc)
    try:
        g = run_history(doc["n"], doc["computer"], doc["values"], hist)
    except Exception as e:  # noqa: BLE001
        return True, f"operation raised {type(e).__name__}: {e}"
    chk.live = g
    t1 = read(g)
    msg = chk.clean(t1.k, t1, "replay")
    if not msg and "S" in doc and len(hist) >= 4:
        g0 = run_history(doc["n"], doc["computer"], doc["values"], hist[:-2])
        chk.live = g0
        t0 = read(g0)
        msg = chk.clean(t0.k, t0, "replay")
        if not msg:
            a, b = (t0, t1) if hist[-2][0] == "reveal" else (t1, t0)
            msg = chk.edge(a.k, a, doc["S"], b.k, b, "replay")
    return bool(msg), f"replay n={doc['n']} computer={doc['computer']} values={doc['values']} history={hist[:10]}\n{msg or 'no violation on this history'}"
