"""C11 — exhaustive search evaluates each reveal set once, correctly; finds the optimum (DESIGN §6 C11)."""
from __future__ import annotations

import itertools

import numpy as np

from .. import alphabets as A
from .. import detpool, envs, gaps, gens
from ..core import Run, Stats, fanout
from ..lattice import apply_op, coal, new_game, read, run_history

SA = ("superadditive", "superadditive_cached")


def gap_of(n, comp, v, K, gap_name, ftol):
    t = read(run_history(n, comp, v, [("reset", K), ("compute",)]))
    lo, up = t.lo.tolist(), t.up.tolist()
    exact = ftol == 0.0
    g = gaps.oracle(gap_name, lo, up, n, exact)
    return g, gaps.tol_for(gap_name, lo, up, n, exact) + 1e-12 * abs(g) + ftol * (1 << n)


def p_schedules(n_tasks: int, ps, full_up_to=5):
    """(p, name, assignment) for every explored schedule."""
    for p in ps:
        m = len(detpool.chunking(n_tasks, p))
        if m <= full_up_to:
            for name, a in detpool.schedules_for(m, p, full_up_to):
                yield p, name, a
        else:
            rr = [i % p for i in range(m)]
            cands = [("round-robin", rr), ("all-on-one", [0] * m), ("halves", [0 if i < m // 2 else min(1, p - 1) for i in range(m)])]
            if p >= m:
                cands.append(("one-per-chunk", list(range(m))))
            if p > 1:
                for i in range(0, m, max(1, m // 6)):
                    a = list(rr)
                    a[i] = (rr[i] + 1) % p
                    cands.append((f"move-chunk-{i}", a))
            seen = set()
            for name, a in cands:
                if tuple(a) not in seen:
                    seen.add(tuple(a))
                    yield p, name, a


def search_unit(u) -> Stats:
    """get_exploitabilities_of_action_sequences under every schedule."""
    _, n, v, K0, k, comp, gap_name, ps, real_ps, tag = u
    import incomplete_cooperative.gameplay as gp
    ftol = 0.0
    if isinstance(v, tuple) and v and v[0] == "GEN":
        v = gens.draw(v[1], v[2], v[3])
        ftol = gens.float_tol(v, n)
    st = Stats()
    doc = {"engine": "search", "n": n, "values": list(v), "K0": A.kmask_ids(K0), "k": k, "computer": comp, "gap": gap_name, "tag": tag}
    full = envs.full_game(v)
    gap = gaps.registry()[gap_name]
    unknown = [s for s in range(1 << n) if not K0 >> s & 1]
    kk = min(k, len(unknown)) if k is not None else len(unknown)
    want_sets = [frozenset(c) for r in range(kk + 1) for c in itertools.combinations(unknown, r)]
    want_gap = {}
    for ws in want_sets:
        want_gap[ws] = gap_of(n, comp, v, K0 | A.kmask(ws), gap_name, ftol)

    def fresh_game():
        g = new_game(n, comp)
        apply_op(g, v, ("reset", K0))
        return g

    def judge(res, how) -> str | None:
        got_sets = [frozenset(c.id for c in seq) for seq, _ in res]
        if sorted(map(sorted, got_sets)) != sorted(map(sorted, want_sets)):
            missing = [sorted(x) for x in set(want_sets) - set(got_sets)][:3]
            dup = [sorted(x) for x in set(got_sets) if got_sets.count(x) > 1][:3]
            extra = [sorted(x) for x in set(got_sets) - set(want_sets)][:3]
            return f"{how}: enumerated {len(got_sets)} sets, expected {len(want_sets)} (every set of <= {kk} unknown coalitions once); missing {missing} duplicated {dup} unexpected {extra}"
        for (seq, val), gs in zip(res, got_sets):
            if len(seq) != len(gs):
                return f"{how}: action sequence {[c.id for c in seq]} repeats a coalition"
            w, tol = want_gap[gs]
            if abs(float(val) - w) > tol:
                return (f"{how}: gap reported for revealing {sorted(gs)} on top of {A.kmask_ids(K0)} is {float(val)}, but the gap of the incomplete game "
                        f"in which exactly these are known is {w}")
        return None

    outcomes = {}
    first = None
    for p, name, a in p_schedules(len(want_sets), ps):
        g = fresh_game()
        try:
            with detpool.patched([gp], detpool.fixed(a, name)) as sch:
                res = list(gp.get_exploitabilities_of_action_sequences(g, full, gap, max_size=k, processes=p))
        except Exception as e:  # noqa: BLE001
            st.violation(f"[search n={n} {tag} p={p} {name}] raised {type(e).__name__}: {e}", processes=p, assignment=a, **doc)
            return st
        st.transitions += 1
        st.evals += 1
        msg = judge(res, f"p={p} schedule {name} {a}")
        if msg:
            st.violation(f"[search n={n} {tag} {comp} {gap_name}] {msg}", processes=p, assignment=a, **doc)
            if st.nviol >= 3:
                return st
            continue
        key = tuple((tuple(c.id for c in seq), float(val)) for seq, val in res)
        outcomes.setdefault(p, set()).add(key)
        if first is None:
            first = (p, name, a, key)
        elif key != first[3]:
            diff = [(x, y) for x, y in zip(key, first[3]) if x != y][:2]
            st.violation(f"[search n={n} {tag} {comp} {gap_name}] result depends on the schedule: p={p} {name} {a} differs from p={first[0]} {first[1]} {first[2]} "
                         f"at {diff}", processes=p, assignment=a, **doc)
            if st.nviol >= 3:
                return st
        if len(sch.log) == 1 and len(sch.log[0]["chunk_sizes"]) >= 2:
            st.nontrivial += 1
        st.states += 1
    # conformance: the real multiprocessing.Pool must produce one of the outcomes DetPool produced for that p
    for p in real_ps:
        g = fresh_game()
        try:
            res = list(gp.get_exploitabilities_of_action_sequences(g, full, gap, max_size=k, processes=p))
        except Exception as e:  # noqa: BLE001
            st.violation(f"[search n={n} {tag} real Pool p={p}] raised {type(e).__name__}: {e}", processes=p, real_pool=True, **doc)
            continue
        st.traces += 1
        key = tuple((tuple(c.id for c in seq), float(val)) for seq, val in res)
        msg = judge(res, f"real Pool p={p}")
        if msg:
            st.violation(f"[search n={n} {tag}] {msg}", processes=p, real_pool=True, **doc)
        elif p in outcomes and key not in outcomes[p]:
            st.violation(f"[search n={n} {tag}] HARNESS CONFORMANCE: the real Pool with p={p} produced a result no DetPool schedule produced", processes=p,
                         real_pool=True, **doc)
    st.outcomes |= {hash(k) for s in outcomes.values() for k in s}
    if n == 3 and k == 2 and tag == "exact3#0":
        st.sample({"n": n, "K0": A.kmask_ids(K0), "k": k, "sets": [sorted(x) for x in want_sets],
                   "schedules": [(p, name, a) for p, name, a in p_schedules(len(want_sets), ps)][:8]})
    return st


def meta_unit(u) -> Stats:
    """MetaGame.get_value / get_values == gap after revealing minimal information + the chosen coalitions."""
    _, n, v, comp, gap_name, max_size, tag = u
    from incomplete_cooperative.meta_game import MetaGame
    st = Stats()
    doc = {"engine": "meta", "n": n, "values": list(v), "computer": comp, "gap": gap_name, "tag": tag}
    full = envs.full_game(v)
    inc = new_game(n, comp)
    # the incomplete game handed in carries unrelated knowledge: the meta-game must not be tied to it
    apply_op(inc, v, ("reset", (1 << (1 << n)) - 1))
    before = read(inc).key
    mg = MetaGame(full, inc, gaps.registry()[gap_name])
    base = A.kmask(A.minimal_ids(n))
    ex = A.explorable_ids(n)
    if mg.number_of_players != len(ex) or [c.id for c in mg.players] != list(ex):
        st.violation(f"[meta n={n}] meta players {[c.id for c in mg.players]} are not the explorable coalitions {list(ex)}", **doc)
        return st
    metas = [m for m in range(1 << len(ex)) if max_size is None or A.popcount(m) <= max_size]
    order = metas + metas[::-1][1:7]         # revisit some in another order: the value must not depend on earlier queries
    cache = {}
    for m in order:
        chosen = [ex[i] for i in range(len(ex)) if m >> i & 1]
        try:
            got = float(mg.get_value(coal(m)))
        except Exception as e:  # noqa: BLE001
            st.violation(f"[meta n={n}] get_value({m}) raised {type(e).__name__}: {e}", meta=m, **doc)
            return st
        st.transitions += 1
        st.evals += 1
        w, tol = cache.setdefault(m, gap_of(n, comp, v, base | A.kmask(chosen), gap_name, 0.0))
        if abs(got - w) > tol:
            st.violation(f"[meta n={n} {comp} {gap_name}] value of meta-coalition {m} (coalitions {chosen}) is {got}; the gap after revealing minimal "
                         f"information + these coalitions is {w}", meta=m, **doc)
            if st.nviol >= 3:
                return st
        st.states += 1
        if chosen:
            st.nontrivial += 1
    if n == 3:
        vals = [float(x) for x in mg.get_values()]
        if any(abs(vals[m] - cache[m][0]) > cache[m][1] for m in range(1 << len(ex))):
            st.violation(f"[meta n={n}] get_values() = {vals} differs from the per-coalition values", **doc)
    if read(inc).key != before:
        st.violation(f"[meta n={n}] querying the meta-game modified the incomplete game it was constructed from", **doc)
    return st


def best_unit(u) -> Stats:
    """get_best_exploitability: per size the minimum mean gap over the sampled games and a set attaining it."""
    _, n, games, comp, gap_name, max_steps, reps, ps, tag = u[:9]
    pre_steps = tuple(u[9]) if len(u) > 9 else ()      # actions taken on the env BEFORE the search: part of the starting knowledge
    import incomplete_cooperative.gameplay as gp
    from incomplete_cooperative.run.best_states import get_best_exploitability
    st = Stats()
    ftol = 0.0
    resolved = []
    for g in games:
        if isinstance(g, tuple) and g and g[0] == "GEN":
            g = gens.draw(g[1], g[2], g[3])
            ftol = max(ftol, gens.float_tol(g, n))
        resolved.append(tuple(g))
    doc = {"engine": "best", "n": n, "games": [list(g) for g in resolved], "computer": comp, "gap": gap_name, "max_steps": max_steps, "reps": reps, "tag": tag,
           "pre_steps": list(pre_steps)}
    base = A.kmask(A.minimal_ids(n))
    ex = A.explorable_ids(n)
    for a_ in pre_steps:
        base |= 1 << ex[a_]
    ex = tuple(c for c in ex if not base >> c & 1)
    first = None
    for p, name, a in ps:
        script = envs.Script(resolved)
        env = envs.make_env(n, script, comp, gaps.registry()[gap_name])
        for a_ in pre_steps:
            env.step(a_)
        start = script.calls
        try:
            with detpool.patched([gp], detpool.Schedule(lambda m, pp, a=a: [a[i % len(a)] % pp for i in range(m)], name, max_workers=max(a) + 1)):
                best, actions = get_best_exploitability(env, max_steps, reps, gaps.registry()[gap_name], processes=p)
        except Exception as e:  # noqa: BLE001
            st.violation(f"[best n={n} {tag} p={p}] raised {type(e).__name__}: {e}", processes=p, **doc)
            return st
        st.transitions += 1
        used = [resolved[(start + i) % len(resolved)] for i in range(reps)]
        best = np.asarray(best, dtype=np.float64)
        if best.shape != (max_steps + 1, reps) or len(actions) != max_steps + 1:
            st.violation(f"[best n={n} {tag}] result shapes {best.shape}, {len(actions)}", processes=p, **doc)
            return st
        kk = min(max_steps, len(ex))
        prev_mean = None
        for s in range(kk + 1):
            col = {}
            tolmax = 0.0
            for c in itertools.combinations(ex, s):
                vals = []
                for g in used:
                    w, tol = gap_of(n, comp, g, base | A.kmask(c), gap_name, ftol)
                    vals.append(w)
                    tolmax = max(tolmax, tol)
                col[frozenset(c)] = vals
            st.evals += len(col)
            opt = min(float(np.mean(vv)) for vv in col.values())
            named = frozenset(actions[s])
            if len(actions[s]) != s or named not in col:
                st.violation(f"[best n={n} {tag} p={p}] best_actions[{s}] = {actions[s]} is not a set of {s} distinct explorable coalitions", processes=p, step=s, **doc)
                break
            if any(abs(float(best[s][i]) - col[named][i]) > tolmax for i in range(reps)):
                st.violation(f"[best n={n} {tag} p={p}] row {s} = {best[s].tolist()} is not the gap column {col[named]} of the named set {sorted(named)}",
                             processes=p, step=s, **doc)
                break
            if float(np.mean(best[s])) > opt + tolmax:
                better = min(col, key=lambda k: float(np.mean(col[k])))
                st.violation(f"[best n={n} {tag} p={p}] size {s}: reported mean gap {float(np.mean(best[s]))} for {sorted(named)}, but {sorted(better)} achieves {opt}",
                             processes=p, step=s, **doc)
                break
            if prev_mean is not None and float(np.mean(best[s])) > prev_mean + tolmax:
                st.violation(f"[best n={n} {tag} p={p}] curve increases from {prev_mean} to {float(np.mean(best[s]))} at size {s}", processes=p, step=s, **doc)
                break
            prev_mean = float(np.mean(best[s]))
            st.nontrivial += 1
        key = (best.tobytes(), repr(actions))
        if first is None:
            first = (p, name, key)
        elif key != first[2]:
            st.violation(f"[best n={n} {tag}] result depends on the schedule: p={p} {name} vs p={first[0]} {first[1]}", processes=p, **doc)
        st.states += 1
        if st.nviol >= 3:
            break
    st.traces += 1
    return st


def dispatch(u) -> Stats:
    return {"search": search_unit, "meta": meta_unit, "best": best_unit}[u[0]](u)


def run(run: Run) -> None:
    gaps.registry()
    seed, quick = run.seed, run.quick
    us: list = []
    g3 = A.a3_sa()
    reps4 = A.a4_sa_reps(seed)
    ps_all = list(range(1, 17))
    ps_q = [1, 2, 3, 4, 5, 8, 16]
    base3, base4 = A.kmask(A.minimal_ids(3)), A.kmask(A.minimal_ids(4))
    picks3 = [A.shifted(g3[(61 * (seed + 1) + 173 * k) % len(g3)], A.ADD3) if k % 2 else g3[(61 * (seed + 1) + 173 * k) % len(g3)] for k in range(6)]
    for gi, v in enumerate(picks3[:3 if quick else 6]):
        for K0 in A.knowledge_sets(3):
            for k in (0, 1, 2, 3, None):
                comp = SA[(gi + (k or 0)) % 2]
                gap_name = gaps.NAMES[(gi + (k or 0)) % 4]
                us.append(("search", 3, v, K0, k, comp, gap_name, ps_q if quick else ps_all, (2,) if K0 == base3 and k == 2 else (), f"exact3#{gi}"))
    ex4 = A.explorable_ids(4)
    k0s4 = [base4] + [base4 | 1 << s for s in ex4] + [base4 | A.kmask(s for s in ex4 if A.popcount(s) == 2)]
    picks4 = [A.shifted(reps4[(19 * (seed + 1) + 47 * k) % len(reps4)], A.ADD4) for k in range(4)]
    for gi, v in enumerate(picks4[:2 if quick else 4]):
        for ki, K0 in enumerate(k0s4):
            if quick and ki not in (0, 1 + (seed % 10), len(k0s4) - 1):
                continue
            for k in ((2, 3) if quick else (0, 1, 2, 3)):
                if quick and K0 == base4 and k == 3 and gi:
                    continue
                us.append(("search", 4, v, K0, k, SA[(gi + k) % 2], gaps.NAMES[(gi + ki + k) % 4], ps_q if quick else ps_all,
                           (1, 2, 3, 4, 8, 16) if (K0 == base4 and k == 2 and gi == 0) else (), f"exact4#{gi}"))
    # SAM computers on SAM games: these computers keep reading what earlier tasks left in the (per-chunk shared) game object
    sam3, sam4 = A.a3_sam(), A.a4_sam()
    for gi in range(2 if quick else 6):
        v = sam3[(37 * (seed + 1) + 53 * gi) % len(sam3)]
        if gi % 2:
            v = A.shifted(v, (-1, -2, 0))
        for K0 in A.knowledge_sets(3):
            for k in ((None, 2) if quick else (0, 1, 2, 3, None)):
                us.append(("search", 3, v, K0, k, ("sam_apx_1", "sam_apx_10")[gi % 2], gaps.NAMES[(gi + (k or 0)) % 4], ps_q if quick else ps_all, (),
                           f"sam3#{gi}"))
    for gi in range(1 if quick else 3):
        v = sam4[(3 * seed + 7 + 61 * gi) % len(sam4)]
        us.append(("search", 4, v, base4, 2, "sam_apx_1", gaps.NAMES[gi % 4], ps_q if quick else ps_all, (2,) if gi == 0 else (), f"sam4#{gi}"))
    g5 = A.shifted(tuple(A.popcount(s) ** 2 + (s % 3) for s in range(32)), (1, -1, 2, 0, 3))
    us.append(("search", 5, g5, A.kmask(A.minimal_ids(5)) | 1 << 3 | 1 << 28, 2, SA[1], "l1_norm", [1, 2, 16] if quick else [1, 2, 3, 4, 8, 16], (), "exact5"))
    if not quick:
        us.append(("search", 4, picks4[0], base4, 4, SA[1], "l1_norm", [1, 2, 4, 16], (2,), "exact4-k4"))
    for i, name in enumerate(("noisy_factory", "graph_random", "xos")):
        us.append(("search", 3, ("GEN", name, 3, seed), base3, 2, SA[i % 2], gaps.NAMES[i], [1, 2, 4], (), f"gen:{name}"))
    # meta-game
    for gi, v in enumerate(picks3[:2 if quick else 6]):
        for comp in SA:
            for gap_name in (("exploitability", "l1_norm") if quick else gaps.NAMES):
                us.append(("meta", 3, v, comp, gap_name, None, f"exact3#{gi}"))
    us.append(("meta", 4, picks4[0], SA[1], "l1_norm", 2, "exact4#0"))
    us.append(("meta", 3, sam3[(37 * (seed + 1)) % len(sam3)], "sam_apx_1", "l1_norm", None, "sam3"))
    us.append(("meta", 4, sam4[(3 * seed + 7) % len(sam4)], "sam_apx_1", "exploitability", 2, "sam4"))
    if not quick:
        us.append(("meta", 4, picks4[1], SA[0], "exploitability", 2, "exact4#1"))
    # best states
    sched_small = [(1, "p1", [0]), (2, "round-robin", [0, 1]), (2, "all-on-one", [0]), (4, "round-robin", [0, 1, 2, 3]), (16, "reverse", [3, 2, 1, 0])]
    for reps in (1, 2, 3):
        us.append(("best", 3, picks3[:3], SA[reps % 2], gaps.NAMES[reps % 4], 3, reps, sched_small if not quick else sched_small[:4], f"exact3-r{reps}"))
    us.append(("best", 3, [("GEN", "noisy_factory", 3, seed), ("GEN", "noisy_factory", 3, seed + 1)], SA[1], "exploitability", 2, 2, sched_small[:3], "gen3"))
    us.append(("best", 4, picks4[:2], SA[1], "l1_norm", 2, 2, sched_small[:3] if quick else sched_small, "exact4-r2"))
    # games in which a PARTIAL reveal set already closes the gap exactly (optimum 0 before everything is revealed)
    surplus4 = tuple(float(A.popcount(s)) + (1.0 if s == 15 else 0.0) for s in range(16))
    us.append(("best", 4, [surplus4, A.scaled(surplus4, 2.0)], SA[1], "l1_norm", 4 if quick else 5, 2, sched_small[:2], "surplus4"))
    surplus3 = tuple(float(A.popcount(s)) + (1.0 if s == 7 else 0.0) for s in range(8))
    us.append(("best", 3, [surplus3, tuple([0.0] * 8)], SA[0], "linf_norm", 3, 2, sched_small[:3], "surplus3+zero"))
    # the search started from an environment that has already revealed coalitions (they belong to the starting knowledge)
    us.append(("best", 3, picks3[:3], SA[0], "l1_norm", 2, 2, sched_small[:3], "after-step3", (1,)))
    us.append(("best", 4, picks4[:2], SA[1], "exploitability", 2, 2, sched_small[:2], "after-steps4", (4, 0)))
    # tiny units (every gap below 1e-8) and a near-tie (one coalition worth 2^-20 more in a symmetric game)
    us.append(("best", 3, [A.scaled(picks3[0], A.TINY), A.scaled(picks3[1], A.TINY)], SA[1], "l1_norm", 3, 2, sched_small[:2], "tiny3"))
    sym4 = [float(A.popcount(s) ** 2) for s in range(16)]
    sym4[13] += 2.0 ** -20
    us.append(("best", 4, [tuple(sym4)], SA[1], "l1_norm", 3, 1, sched_small[:2], "near-tie4"))
    us.append(("best", 4, [A.scaled(picks4[0], 2.0 ** -40), A.scaled(picks4[1], 2.0 ** -40)], SA[0], "l1_norm", 2, 2, sched_small[:2], "tiny4"))
    us.append(("best", 4, [A.scaled(picks4[2 % len(picks4)], 2.0 ** -40)], SA[1], "exploitability", 2, 1, sched_small[:1], "tiny4e"))
    if not quick:
        us.append(("best", 4, picks4[:3], SA[0], "exploitability", 3, 3, sched_small[:3], "exact4-r3"))
    run.rule = ("get_exploitabilities_of_action_sequences for every starting knowledge (n=3: all 8; n=4: minimal, minimal+one coalition, minimal+all pairs) x "
                "size limit k x schedule: every worker count p (quick: 1,2,3,4,5,8,16; thorough: 1..16 = every chunking of the task list) x chunk->worker "
                "assignments (all set partitions for <= 5 chunks; round-robin / all-on-one / one-per-chunk / halves / single-chunk moves above) on the "
                "deterministic pool; oracle = independently enumerated subsets + gap of a fresh game with exactly that knowledge; MetaGame values for all "
                "meta-coalitions (n=3) / size <= 2 (n=4); get_best_exploitability on scripted game lists vs exhaustive per-size optimum. "
                "non-trivial = schedules with >= 2 chunks / non-empty meta-coalitions / sizes checked")
    run.bounds = {"n": [3, 4], "p": ps_q if quick else ps_all, "units": len(us)}
    run.assumptions = ["DetPool models chunk pickling, per-worker module state and in-order dequeuing; conformance runs on the real multiprocessing.Pool "
                       "must land in the DetPool outcome set (traces_validated_against_impl)", "forkserver start method, worker crashes and timing are not modelled"]

    def cost(u):
        if u[0] == "search":
            return (10 if u[1] == 4 else 60 if u[1] == 5 else 1) * len(u[7]) * (1 + (u[4] or 3))
        return 5
    run.add(fanout(dispatch, sorted(us, key=lambda u: -cost(u)), procs=10, chunk=1))


def replay(doc: dict):
    eng = doc.get("engine")
    if eng == "search":
        ps = [doc["processes"]] if "processes" in doc else [1, 2]
        u = ("search", doc["n"], tuple(doc["values"]), A.kmask(doc["K0"]), doc["k"], doc["computer"], doc["gap"], ps, (), doc.get("tag", "replay"))
        st = search_unit(u)
    elif eng == "meta":
        st = meta_unit(("meta", doc["n"], tuple(doc["values"]), doc["computer"], doc["gap"], None if doc["n"] == 3 else 2, "replay"))
    else:
        p = doc.get("processes", 1)
        st = best_unit(("best", doc["n"], [tuple(g) for g in doc["games"]], doc["computer"], doc["gap"], doc["max_steps"], doc["reps"],
                        [(p, "replay", list(range(min(p, 4))))], "replay", tuple(doc.get("pre_steps", ()))))
    msgs = [v["message"] for v in st.violations]
    return bool(msgs), "; ".join(msgs) if msgs else "exhaustive search agrees with the independent enumeration on this configuration"
