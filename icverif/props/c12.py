"""C12 — evaluate() records true trajectories; results independent of parallelism (DESIGN §6 C12).

Schedules are the explored dimension: every worker count p (hence every chunking of the repetition list) and
chunk->worker assignments on the deterministic pool E2, with conformance runs on the real multiprocessing.Pool.
"""
from __future__ import annotations

import json
import os
import shutil
import tempfile
import types

import numpy as np

from .. import alphabets as A
from .. import detpool, gaps
from ..core import Run, Stats, fanout
from ..lattice import read, run_history

REPORT_DIR = None          # set in the worker that runs a unit; inherited by forked pool workers


class Reporter:
    """Picklable after_reset callback: writes (repetition index, hidden values) of the env it is given to a scratch directory."""

    def __init__(self, directory: str, inner) -> None:
        self.directory = directory
        self.inner = inner

    def __call__(self, env) -> None:
        base = env.icg_gym if hasattr(env, "icg_gym") else env
        idx = getattr(base, "_icv_index", None)
        vals = [float(x) for x in base.full_game.get_values()]
        with open(os.path.join(self.directory, f"{idx}-{os.getpid()}-{np.random.randint(1 << 30)}.json"), "w") as f:
            json.dump({"index": idx, "values": vals}, f)
        if self.inner is not None:
            self.inner(env)


class TaggingGenerator:
    """Wraps instance.get_env: tags each env with its repetition index (the tag pickles along with the env)."""

    def __init__(self, get_env) -> None:
        self.get_env = get_env
        self.count = 0

    def __call__(self):
        env = self.get_env()
        base = env.icg_gym if hasattr(env, "icg_gym") else env
        base._icv_index = self.count
        self.count += 1
        return env


def make_instance(n, generator, solver, seed, limit, p, comp, gap_name):
    from incomplete_cooperative.run.model import ModelInstance
    return ModelInstance(number_of_players=n, game_class=comp, game_generator=generator, gap_function=gap_name, seed=seed,
                         run_steps_limit=limit, parallel_environments=p)


def call_evaluate(cfg, p, schedule=None, real=False):
    """One evaluate() call configured like `solve_func` does. Returns (gap matrix, action matrix, {index: hidden values})."""
    import incomplete_cooperative.evaluation as ev
    from incomplete_cooperative.solvers import SOLVERS
    n, generator, solver, seed, R, limit, comp, gap_name = cfg
    inst = make_instance(n, generator, solver, seed, limit, p, comp, gap_name)
    sol = SOLVERS[solver](inst)
    d = tempfile.mkdtemp(prefix="icverif-c12-")
    try:
        rep = Reporter(d, sol.after_reset)
        gen = TaggingGenerator(inst.get_env)
        steps = inst.run_steps_limit or 2 ** inst.number_of_players
        if real:
            out = ev.evaluate(sol.next_step, gen, R, steps, inst.gap_function_callable, p, rep)
        else:
            with detpool.patched([ev], schedule):
                out = ev.evaluate(sol.next_step, gen, R, steps, inst.gap_function_callable, p, rep)
        hidden = {}
        for fn in os.listdir(d):
            r = json.load(open(os.path.join(d, fn)))
            hidden.setdefault(r["index"], []).append(tuple(r["values"]))
        return np.asarray(out[0], dtype=np.float64), np.asarray(out[1], dtype=np.float64), hidden, steps
    finally:
        shutil.rmtree(d, ignore_errors=True)


def faithful(cfg, expl, acts, hidden, steps) -> str | None:
    """(a) every column is the real trajectory of that repetition's hidden game."""
    n, generator, solver, seed, R, limit, comp, gap_name = cfg
    if expl.shape != (steps + 1, R) or acts.shape != (steps, R):
        return f"result shapes {expl.shape} / {acts.shape}, expected {(steps + 1, R)} / {(steps, R)}"
    base = A.kmask(A.minimal_ids(n))
    ex = set(A.explorable_ids(n))
    for j in range(R):
        hv = hidden.get(j)
        if not hv or len(hv) != 1:
            # the harness attributes hidden games through "the j-th environment handed out is reset exactly once"; an implementation that hands
            # environments out differently is not wrong for that - the faithfulness clause cannot be decided here, the other clauses still are
            return f"UNATTRIBUTABLE repetition {j}: after_reset was called {len(hv or [])} times for the {j}-th environment handed out"
        v = hv[0]
        scale = max(1.0, max(abs(x) for x in v))
        K = base
        done = False
        for t in range(steps + 1):
            tab = read(run_history(n, comp, v, [("reset", K), ("compute",)]))
            lo, up = tab.lo.tolist(), tab.up.tolist()
            g = gaps.oracle(gap_name, lo, up, n, False)
            tol = gaps.tol_for(gap_name, lo, up, n, False) + 1e-9 * scale
            if abs(float(expl[t][j]) - g) > tol and not (done and float(expl[t][j]) == 0.0 and abs(g) <= tol):
                return (f"repetition {j}, row {t}: recorded gap {float(expl[t][j])}, but the gap of this repetition's hidden game after revealing "
                        f"{[int(x) for x in acts[:t, j]]} is {g}")
            if t == steps:
                break
            if done:
                if float(acts[t][j]) != 0.0:
                    return f"repetition {j}: action {acts[t][j]} recorded after the episode was done"
                continue
            a = acts[t][j]
            if float(a) != int(a) or int(a) not in ex:
                return f"repetition {j}, step {t}: recorded action {a} is not an explorable coalition id"
            a = int(a)
            if K >> a & 1:
                return f"repetition {j}, step {t}: coalition {a} is recorded twice"
            K |= 1 << a
            tab2 = read(run_history(n, comp, v, [("reset", K), ("compute",)]))
            unknown_left = any(not K >> s & 1 for s in ex)
            budget_done = limit is not None and (t + 1) >= limit
            done = budget_done or not unknown_left or bool(np.all(tab2.lo == tab2.up))
    return None


def restart_model_actions(cfg, p_chunks, hidden, steps):
    """F5b behavioural model: within each pool chunk the random solver starts again from a fresh Random(3*seed) stream,
    consumed by that chunk's repetitions in order. Returns the predicted action matrix."""
    import random
    n, generator, solver, seed, R, limit, comp, gap_name = cfg
    ex = list(A.explorable_ids(n))
    base = A.kmask(A.minimal_ids(n))
    pred = np.zeros((steps, R))
    j = 0
    for size in p_chunks:
        rng = random.Random(3 * seed)
        for _ in range(size):
            v = hidden[j][0]
            K = base
            for t in range(steps):
                valid = [i for i, s in enumerate(ex) if not K >> s & 1]
                if not valid:
                    break
                a = rng.choice(valid)
                pred[t][j] = ex[a]
                K |= 1 << ex[a]
                tab = read(run_history(n, comp, v, [("reset", K), ("compute",)]))
                if (limit is not None and t + 1 >= limit) or all(K >> s & 1 for s in ex) or bool(np.all(tab.lo == tab.up)):
                    break
            j += 1
    return pred


def unit(u) -> Stats:
    cfg, ps, real_ps, tag = u
    n, generator, solver, seed, R, limit, comp, gap_name = cfg
    st = Stats()
    doc = {"n": n, "generator": generator, "solver": solver, "gen_seed": seed, "repetitions": R, "limit": limit, "computer": comp, "gap": gap_name, "tag": tag}
    ref = None
    outcomes: dict = {}
    continuous = generator.startswith(("noisy", "xos", "xs", "oxs")) and generator != "xos_one"
    for p in ps:
        m = len(detpool.chunking(R, p)) if p > 1 else 1
        scheds = [("sequential", [0])] if p == 1 else detpool.schedules_for(m, p, 5, 1)
        if p > 1 and R > 100:
            scheds = scheds[:1]
        elif p > 1 and m > 5:
            scheds = scheds[:3] + scheds[3::max(1, len(scheds) // 3)]
        elif p > 1 and m == 5 and R != 5:
            scheds = scheds[::3]
        for name, a in scheds:
            try:
                expl, acts, hidden, steps = call_evaluate(cfg, p, detpool.fixed(a, name))
            except Exception as e:  # noqa: BLE001
                st.violation(f"[evaluate {tag} p={p} {name} {a}] raised {type(e).__name__}: {e}", processes=p, assignment=a, **doc)
                return st
            st.transitions += 1
            st.states += 1
            st.evals += 1
            msg = faithful(cfg, expl, acts, hidden, steps)
            attributable = not (msg or "").startswith("UNATTRIBUTABLE")
            if not attributable:
                st.cap(f"hidden games could not be attributed to repetitions ({tag} p={p}): {msg}; trajectory faithfulness not decided there")
                msg = None
            if msg:
                st.violation(f"[evaluate {tag} {solver} {generator} R={R} p={p} schedule {name} {a}] {msg}", processes=p, assignment=a, **doc)
                if st.nviol >= 3:
                    return st
                continue
            if p == 1 and attributable:
                base_k = A.kmask(A.minimal_ids(n))
                for j in range(R):
                    t0 = read(run_history(n, comp, hidden[j][0], [("reset", base_k), ("compute",)]))
                    if bool(np.all(t0.lo == t0.up)):
                        st.count("repetitions_done_right_after_reset")
            if continuous and attributable:
                games = [hidden[j][0] for j in range(R)]
                if len(set(games)) != R:
                    st.violation(f"[evaluate {tag} {generator} R={R} p={p} {name} {a}] only {len(set(games))} distinct hidden games in {R} repetitions "
                                 f"(repetitions replay one another)", processes=p, assignment=a, **doc)
                    if st.nviol >= 3:
                        return st
                    continue
            key = (expl.tobytes(), acts.tobytes())
            outcomes.setdefault(p, set()).add(key)
            if ref is None:
                ref = (p, name, a, expl, acts)
            elif key != (ref[3].tobytes(), ref[4].tobytes()):
                # schedule dependence: is it exactly the known per-chunk restart of the random solver's stream?
                known = False
                if solver == "random" and p > 1 and attributable:
                    pred = restart_model_actions(cfg, detpool.chunking(R, p), hidden, steps)
                    if np.array_equal(pred, acts):
                        known = True
                        st.count("known:evaluate-random-solver-chunk-restart")
                if not known:
                    cols = [j for j in range(R) if not (np.array_equal(expl[:, j], ref[3][:, j]) and np.array_equal(acts[:, j], ref[4][:, j]))]
                    st.violation(f"[evaluate {tag} {solver} {generator} R={R}] the result depends on the schedule: p={p} {name} {a} differs from p={ref[0]} "
                                 f"{ref[1]} in repetitions {cols[:8]}", processes=p, assignment=a, **doc)
                    if st.nviol >= 3:
                        return st
            if m >= 2:
                st.nontrivial += 1
    for p in real_ps:
        try:
            expl, acts, hidden, steps = call_evaluate(cfg, p, real=True)
        except Exception as e:  # noqa: BLE001
            st.violation(f"[evaluate {tag} real Pool p={p}] raised {type(e).__name__}: {e}", processes=p, real_pool=True, **doc)
            continue
        st.traces += 1
        msg = faithful(cfg, expl, acts, hidden, steps)
        if msg and msg.startswith("UNATTRIBUTABLE"):
            st.cap(f"real Pool p={p}: {msg}")
        elif msg:
            st.violation(f"[evaluate {tag} real Pool p={p}] {msg}", processes=p, real_pool=True, **doc)
        elif p in outcomes and (expl.tobytes(), acts.tobytes()) not in outcomes[p]:
            st.violation(f"[evaluate {tag}] HARNESS CONFORMANCE: the real Pool with p={p} produced a result no DetPool schedule produced", processes=p,
                         real_pool=True, **doc)
    st.outcomes |= {hash(k) for s in outcomes.values() for k in s}
    if solver == "greedy" and R == 5:
        st.sample({"config": doc, "p_values": list(ps), "chunkings": {p: detpool.chunking(R, p) for p in ps if p > 1}})
    return st


def child_evaluate(payload):
    """Runs in a fresh interpreter (icverif.child): one evaluate() per worker count, everything returned as plain lists."""
    cfg = tuple(payload["cfg"])
    out = {}
    for p in payload["ps"]:
        sched = None if p == 1 else detpool.fixed([i % p for i in range(len(detpool.chunking(cfg[4], p)))], "round-robin")
        expl, acts, hidden, steps = call_evaluate(cfg, p, sched if p > 1 else detpool.fixed([0], "sequential"))
        out[str(p)] = {"expl": expl.tolist(), "acts": acts.tolist(), "hidden": [list(hidden[j][0]) for j in range(cfg[4])]}
    return out


def interpreter_unit(u) -> Stats:
    """The same seed in SEPARATE interpreter invocations whose string hashing is salted differently (PYTHONHASHSEED 0 / 1 / 4242), with 1 and 2
    worker processes: hidden games and matrices must be a function of the seed alone."""
    from ..child import run_children
    _, cfgs = u
    st = Stats()
    for cfg in cfgs:
        n, generator, solver, seed, R, limit, comp, gap_name = cfg
        doc = {"n": n, "generator": generator, "solver": solver, "gen_seed": seed, "repetitions": R, "limit": limit, "computer": comp, "gap": gap_name,
               "tag": "interpreters", "interpreters": True}
        res = run_children("c12", "child_evaluate", {"cfg": list(cfg), "ps": [1, 2]})
        ref = None
        for hs, r in sorted(res.items()):
            for p, o in sorted(r.items()):
                st.states += 1
                st.transitions += 1
                st.traces += 1
                st.outcomes.add(hash(json.dumps(o, sort_keys=True)))
                if ref is None:
                    ref = (hs, p, o)
                elif o != ref[2]:
                    what = "hidden games" if o["hidden"] != ref[2]["hidden"] else "result matrices"
                    st.violation(f"[evaluate {solver}/{generator} R={R} seed={seed}] the {what} differ between two invocations with the same seed: "
                                 f"(PYTHONHASHSEED={hs}, p={p}) vs (PYTHONHASHSEED={ref[0]}, p={ref[1]}); first hidden game {o['hidden'][0][:8]} vs "
                                 f"{ref[2]['hidden'][0][:8]}", processes=int(p), hash_seeds=[ref[0], hs], **doc)
                    break
            else:
                continue
            break
        st.nontrivial += 1
    return st


def dispatch(u) -> Stats:
    return interpreter_unit(u) if u[0] == "interpreters" else unit(u)


def run(run: Run) -> None:
    import incomplete_cooperative.run.model  # noqa: F401
    import incomplete_cooperative.solvers  # noqa: F401
    seed, quick = run.seed, run.quick
    us = []
    solvers = ("greedy", "greedy_worst", "largest", "random")
    generators = ("noisy_factory", "factory", "xos", "graph_random")
    ps_q = [1, 2, 3, 4, 16]
    ps_t = list(range(1, 17))
    for si, solver in enumerate(solvers):
        for gi, generator in enumerate(generators):
            for R in ((1, 2, 5, 12) if quick else (1, 2, 5, 12, 24)):
                if quick and ((si + gi + R + seed) % 3 or R == 12 and (si + gi) % 2):
                    continue
                for s in ([seed * 4 + 1] if quick else [seed * 4 + 1, seed * 4 + 2]):
                    comp = ("superadditive", "superadditive_cached")[(si + gi) % 2]
                    gap_name = gaps.NAMES[(si + gi + R) % 4]
                    limit = (None, 2, 3)[(si + R) % 3]
                    real = (2, 3) if (R == 5 and gi == 0) else ()
                    us.append(((3, generator, solver, s, R, limit, comp, gap_name), ps_q if quick else ps_t, real, f"{solver}/{generator}/R{R}"))
    # generators that sometimes draw a game whose intervals are all degenerate at minimal information (episode done right after reset)
    for gi, (generator, n) in enumerate((("xs2", 4), ("graph_random", 3), ("xs3", 3), ("factory_one", 3))):
        for si, solver in enumerate(("largest", "greedy")):
            if quick and (gi + si + seed) % 2:
                continue
            us.append(((n, generator, solver, seed * 4 + 3, 12, None, "superadditive_cached", ("l1_norm", "exploitability")[si]),
                       [1, 2, 3] if quick else [1, 2, 3, 4, 8, 16], (), f"{solver}/{generator}/degenerate-prone"))
    # a threshold on the NUMBER of repetitions (batching, recycling of environments): one long list of cheap repetitions
    for R in ((260,) if quick else (260, 520, 1030)):
        us.append(((3, "noisy_factory", "largest", seed + 7, R, 2, "superadditive_cached", "l1_norm"), [1, 2, 5] if quick else [1, 2, 5, 16], (), f"largest/R{R}"))
    us.append(("interpreters", [(3, "noisy_factory", "greedy", seed + 11, 3, 2, "superadditive_cached", "l1_norm"),
                                (3, "xos", "largest", seed + 12, 3, None, "superadditive", "exploitability"),
                                (3, "factory", "greedy", seed + 13, 2, None, "superadditive_cached", "l1_norm")]))
    us.append(((4, "noisy_factory", "greedy", seed + 3, 5, 3, "superadditive_cached", "l1_norm"), [1, 2, 3], (), "greedy/n4"))
    us.append(((5, "xos", "largest", seed + 5, 3, 2, "superadditive_cached", "linf_norm"), [1, 2], (), "largest/n5"))
    if not quick:
        for solver in solvers:
            us.append(((4, "noisy_factory", solver, seed + 3, 12, 3, "superadditive_cached", "l1_norm"), [1, 2, 3, 4, 8, 16], (4,), f"{solver}/n4"))
    run.rule = ("evaluate() configured as the solve command does, for solvers x generators x repetition counts x EVERY worker count p (quick: 1,2,3,4,16; "
                "thorough 1..16 = all chunkings) x chunk->worker assignments (all set partitions for <= 5 chunks, round-robin / all-on-one / one-per-chunk / "
                "single deviations above) on the deterministic pool; (a) each column replayed against its repetition's hidden game (reported through "
                "after_reset), (b) identical matrices for all schedules, (c) continuous generators: all hidden games distinct. "
                "one long list of 260 (thorough 520, 1030) repetitions; three configurations in SEPARATE interpreters with PYTHONHASHSEED 0 / 1 / 4242 x p = 1, 2: "
                "hidden games and matrices are a function of the seed. non-trivial = schedules with >= 2 chunks")
    run.bounds = {"n": [3] if quick else [3, 4], "p": ps_q if quick else ps_t, "repetitions": [1, 2, 5, 12, 260] if quick else [1, 2, 5, 12, 24, 260, 520, 1030],
                  "interpreter_hash_seeds": [0, 1, 4242], "units": len(us)}
    run.assumptions = ["conformance: real multiprocessing.Pool runs must land in the DetPool outcome set", "forkserver start method is not modelled"]
    total = fanout(dispatch, sorted(us, key=lambda u: -(u[0][4] * len(u[1]) if u[0] != "interpreters" else 10 ** 6)), procs=8, chunk=1)
    k = total.counters.get("known:evaluate-random-solver-chunk-restart", 0)
    if k:
        if not run.known_finding("evaluate-random-solver-chunk-restart", f"{k} explored schedules with p>1 reproduce the per-chunk restart model exactly"):
            total.violation("[evaluate random solver] result depends on the schedule (per-chunk restart of the solver's random stream) and no known-findings "
                            "entry lists it", solver="random")
    run.add(total)


def replay(doc: dict):
    if doc.get("interpreters"):
        st = interpreter_unit(("interpreters", [(doc["n"], doc["generator"], doc["solver"], doc["gen_seed"], doc["repetitions"], doc["limit"], doc["computer"], doc["gap"])]))
        msgs = [v["message"] for v in st.violations]
        return bool(msgs), "; ".join(msgs) if msgs else "identical in all interpreter invocations"
    cfg = (doc["n"], doc["generator"], doc["solver"], doc["gen_seed"], doc["repetitions"], doc["limit"], doc["computer"], doc["gap"])
    p = doc.get("processes", 2)
    st = unit((cfg, sorted({1, p}), (), "replay"))
    msgs = [v["message"] for v in st.violations]
    extra = f" (known-finding matches: {st.counters.get('known:evaluate-random-solver-chunk-restart', 0)})"
    return bool(msgs), ("; ".join(msgs) if msgs else "trajectories faithful and schedule independent on this configuration") + extra
