"""C05 — exploitability = summed best-case Shapley gain = binomially weighted gap (DESIGN §6 C05)."""
from __future__ import annotations

import itertools
import math
from fractions import Fraction

import numpy as np

from .. import alphabets as A
from .. import oracles as O
from ..core import Run, Stats, fanout
from ..lattice import coal, new_game, read, run_history
from ..linform import GenericBoundsGame, NonLinear

TOL = 1e-11


def bounds_game(n: int, lo, up, grand, known_singletons: bool = False):
    """Real incomplete game: empty and grand coalition known (optionally the singletons too, value = their lower bound), every other
    coalition unknown with the given bounds."""
    from incomplete_cooperative.game import IncompleteCooperativeGame
    g = IncompleteCooperativeGame(n)
    g.set_value(grand, coal((1 << n) - 1))
    if known_singletons:
        for i in range(n):
            g.set_value(lo[1 << i], coal(1 << i))
    g.set_lower_bounds(np.array(lo, dtype=np.float64))
    g.set_upper_bounds(np.array(up, dtype=np.float64))
    return g


READ_API = ("get_value", "get_values", "get_known_value", "get_known_values", "get_lower_bound", "get_lower_bounds", "get_upper_bound",
            "get_upper_bounds", "get_interval", "get_intervals", "is_value_known", "are_values_known")
_REPORTED = None


def reported_game(inner):
    """The same bounds REPORTED by an instance of a subclass that answers every read accessor itself (its own raw table stays empty):
    the identity is about the bounds a game reports, whatever its concrete type."""
    global _REPORTED
    if _REPORTED is None:
        from incomplete_cooperative.game import IncompleteCooperativeGame

        def delegate(name):
            def call(self, *a, **k):
                return getattr(self._inner, name)(*a, **k)
            call.__name__ = name
            return call

        ns = {name: delegate(name) for name in READ_API}
        ns["full"] = property(lambda self: self._inner.full)
        _REPORTED = type("ReportedGame", (IncompleteCooperativeGame,), ns)
    g = _REPORTED(inner.number_of_players)
    g._inner = inner
    return g


def expected(n: int, lo, up) -> Fraction:
    N = (1 << n) - 1
    return sum((Fraction(up[s]) - Fraction(lo[s])) / math.comb(n, A.popcount(s)) for s in range(1, N))


def check_vector(st: Stats, n: int, lo, up, grand, tag: str, vertices: bool, known_singletons: bool = False, reported: bool = False) -> None:
    if known_singletons:
        up = list(up)
        for i in range(n):
            up[1 << i] = lo[1 << i]
    from incomplete_cooperative.exploitability import MaxGainGame, compute_exploitability
    from incomplete_cooperative.shapley import compute_shapley_value_for_player
    doc = {"n": n, "lower": list(lo), "upper": list(up), "grand": grand, "vertices": vertices, "known_singletons": known_singletons, "reported": reported}
    try:
        g = bounds_game(n, lo, up, grand, known_singletons)
        if reported:
            g = reported_game(g)
        got = float(compute_exploitability(g))
    except Exception as e:  # noqa: BLE001
        st.violation(f"[expl n={n} {tag}] raised {type(e).__name__}: {e}", **doc)
        return
    st.transitions += 1
    st.evals += 1
    want = expected(n, lo, up)
    scale = max([1.0, abs(float(grand))] + [abs(float(x)) for x in lo] + [abs(float(x)) for x in up])
    tol = TOL * scale * n
    if abs(got - float(want)) > tol:
        st.violation(f"[expl n={n} {tag}] compute_exploitability = {got}, but sum_S (upper-lower)/C(n,|S|) = {want} (= {float(want)}); "
                     f"lower={list(lo)} upper={list(up)} v(N)={grand}", **doc)
        return
    N = (1 << n) - 1
    ordered = all(lo[s] <= up[s] for s in range(1, N))
    degenerate = all(lo[s] == up[s] for s in range(1, N))
    if ordered and got < -tol:
        st.violation(f"[expl n={n} {tag}] negative exploitability {got} although lower <= upper everywhere", **doc)
        return
    if ordered and degenerate and abs(got) > tol:
        st.violation(f"[expl n={n} {tag}] exploitability {got} although all intervals are degenerate", **doc)
        return
    if ordered and not degenerate and float(want) > 4 * tol and abs(got) <= tol:
        st.violation(f"[expl n={n} {tag}] exploitability {got} (zero) although some interval is not degenerate (weighted gap {float(want)})", **doc)
        return
    if not degenerate:
        st.nontrivial += 1
    st.outcomes.add(round(got, 9))
    if not (vertices and ordered):
        return
    # domination: per-player maximum used by the code vs. every vertex completion of the box (O3 on each vertex)
    free = [s for s in range(1, N) if lo[s] != up[s]]
    if len(free) > 10:
        return
    counts = O.shapley_counts(n)
    nf = math.factorial(n)
    try:
        used = [float(compute_shapley_value_for_player(i, MaxGainGame(g, i))) for i in range(n)]
    except Exception as e:  # noqa: BLE001
        st.violation(f"[expl n={n} {tag}] MaxGainGame/Shapley raised {type(e).__name__}: {e}", **doc)
        return
    w = [Fraction(x) for x in lo]
    w[N] = Fraction(grand)
    best = [None] * n
    for choice in itertools.product((0, 1), repeat=len(free)):
        for s, c in zip(free, choice):
            w[s] = Fraction(up[s]) if c else Fraction(lo[s])
        for i in range(n):
            phi = sum(counts[i][s] * w[s] for s in range(1, N + 1) if counts[i][s]) / nf
            if best[i] is None or phi > best[i]:
                best[i] = phi
        st.count("vertex_completions")
    for i in range(n):
        if abs(used[i] - float(best[i])) > tol:
            st.violation(f"[expl n={n} {tag}] player {i}: the per-player maximum used is {used[i]}, but the largest Shapley value over all "
                         f"{2 ** len(free)} vertex completions of the box is {best[i]} (= {float(best[i])})", player=i, **doc)
            return
    if abs(sum(used) - float(grand) - got) > tol * n:
        st.violation(f"[expl n={n} {tag}] sum of per-player maxima - v(N) = {sum(used) - float(grand)} != reported exploitability {got}", **doc)


def guard_unit(n: int) -> Stats:
    from incomplete_cooperative.exploitability import compute_exploitability
    st = Stats()
    g = GenericBoundsGame(n)
    try:
        f = compute_exploitability(g)
    except NonLinear as e:
        st.cap(f"generic-point guard refused at n={n}: {e}")
        return st
    except Exception as e:  # noqa: BLE001 - indeterminates are outside the protocol's value domain: never a violation
        st.cap(f"generic-point guard could not run at n={n}: {type(e).__name__}: {e}")
        return st
    st.states += 1
    st.transitions += 1
    N = (1 << n) - 1
    for s in range(1, N):
        c = Fraction(1, math.comb(n, A.popcount(s)))
        st.evals += 2
        if f.coeff(("u", s)) != c or f.coeff(("l", s)) != -c:
            st.violation(f"[guard n={n}] coefficient of upper({s}) is {f.coeff(('u', s))} and of lower({s}) is {f.coeff(('l', s))}; "
                         f"the identity needs +-1/C({n},{A.popcount(s)}) = +-{c}", n=n, generic=True, coalition=s)
            return st
        st.nontrivial += 1
    if f.coeff(("v", N)) != 0 or f.coeff(1) != 0:
        st.violation(f"[guard n={n}] grand-coalition coefficient {f.coeff(('v', N))} / constant {f.coeff(1)} should cancel", n=n, generic=True)
    st.traces += 1
    st.sample({"guard_n": n, "terms": len(f.c)})
    return st


def basis_unit(n: int) -> Stats:
    st = Stats()
    N = (1 << n) - 1
    zero = [0.0] * (1 << n)
    for s in range(1, N):
        for which in ("u", "l"):
            lo, up = list(zero), list(zero)
            (up if which == "u" else lo)[s] = 1.0
            check_vector(st, n, lo, up, 0.0, f"unit {which}_{s}", False)
            st.states += 1
    check_vector(st, n, zero, zero, 1.0, "unit v_N", False)
    st.states += 1
    return st


PAIRS = ((0, 0), (0, 1), (-1, 1), (1, 1))


def lattice3_unit(u) -> Stats:
    _, lo_i, hi_i, grand = u
    st = Stats()
    n = 3
    for m in range(lo_i, hi_i):
        lo, up = [0.0] * 8, [0.0] * 8
        x = m
        for s in range(1, 7):
            lo[s], up[s] = PAIRS[x % 4]
            x //= 4
        lo[7] = up[7] = grand
        check_vector(st, n, lo, up, grand, f"lattice#{m}", True)
        st.states += 1
        if m % 8 == 3:          # the same shape with a huge common offset per player, and in tiny units
            off = [A.BIG * sum((1, -1, 2)[i] for i in range(3) if s >> i & 1) for s in range(8)]
            check_vector(st, n, [a + o for a, o in zip(lo, off)], [a + o for a, o in zip(up, off)], grand + off[7], f"lattice#{m}+big", False)
            check_vector(st, n, [a * A.TINY for a in lo], [a * A.TINY for a in up], grand * A.TINY, f"lattice#{m}*tiny", False)
            huge = [float(2 ** 33) * sum((1, 1, 2)[i] for i in range(3) if s >> i & 1) for s in range(8)]
            check_vector(st, n, [a + o for a, o in zip(lo, huge)], [a + o for a, o in zip(up, huge)], grand + huge[7], f"lattice#{m}+huge", False)
            st.states += 3
        if m % 4 == 2:          # the same bounds reported by an instance of a subclass (every read accessor answered by the subclass)
            check_vector(st, n, lo, up, grand, f"lattice#{m}/reported-by-subclass", False, reported=True)
            st.states += 1
        if m % 4 == 1:          # exactly the minimal information known (singletons too), prescribed intervals elsewhere
            check_vector(st, n, lo, up, grand, f"lattice#{m}/singletons-known", False, known_singletons=True)
            st.states += 1
        if st.nviol >= 3:
            break
        if m == 1234:
            st.sample({"n": 3, "lower": lo, "upper": up, "grand": grand, "expected": str(expected(3, lo, up))})
    return st


def tables_unit(u) -> Stats:
    """Naturally occurring bound vectors: canonical tables of the real computers, n = 3, 4."""
    _, n, v, max_unknown = u[:4]
    comp = u[4] if len(u) > 4 else "superadditive_cached"
    st = Stats()
    for K in A.knowledge_sets(n):
        unknown = (1 << n) - bin(K).count("1")
        if unknown > max_unknown:
            continue
        t = read(run_history(n, comp, v, [("reset", K), ("compute",)]))
        check_vector(st, n, t.lo.tolist(), t.up.tolist(), v[-1], f"table K={A.kmask_ids(K)}", True)
        st.states += 1
        if st.nviol >= 3:
            break
    return st


def large_unit(u) -> Stats:
    """'Explored numerically beyond' the guard range: one structured bound vector per large player count (numpy oracle).
    Player counts sit on both sides of the machine-word widths 8 and 16."""
    _, n = u
    from incomplete_cooperative.exploitability import compute_exploitability
    st = Stats()
    N = 1 << n
    ids = np.arange(N)
    size = np.zeros(N, dtype=np.int64)
    for i in range(n):
        size += (ids >> i) & 1
    lo = -(size * ((ids % 3) + 1)).astype(np.float64) / 4
    up = lo + ((ids % 5) + (ids >> (n - 1) & 1)).astype(np.float64) / 2
    lo[0] = up[0] = 0.0
    grand = float(n)
    lo[N - 1] = up[N - 1] = grand
    g = bounds_game(n, lo, up, grand)
    binom = np.array([math.comb(n, k) for k in range(n + 1)], dtype=np.float64)
    want = float(np.sum(((up - lo) / binom[size])[1:N - 1]))
    try:
        got = float(compute_exploitability(g))
    except Exception as e:  # noqa: BLE001
        st.violation(f"[expl n={n} large] raised {type(e).__name__}: {e}", n=n, large=True)
        return st
    st.states += 1
    st.transitions += 1
    st.evals += 1
    st.nontrivial += 1
    if abs(got - want) > 1e-9 * max(1.0, abs(want)):
        st.violation(f"[expl n={n} large] compute_exploitability = {got}, but sum_S (upper-lower)/C(n,|S|) = {want} on the structured bound vector "
                     f"lower(S) = -|S|(id%3+1)/4, upper = lower + (id%5 + [player n-1 in S])/2", n=n, large=True)
    return st


def dispatch(u) -> Stats:
    if u[0] == "large":
        return large_unit(u)
    return {"guard": lambda: guard_unit(u[1]), "basis": lambda: basis_unit(u[1]), "lat3": lambda: lattice3_unit(u),
            "tables": lambda: tables_unit(u)}[u[0]]()


def run(run: Run) -> None:
    quick, seed = run.quick, run.seed
    us: list = [("guard", n) for n in range(2, 8 if quick else 10)]
    us += [("basis", n) for n in range(2, 7 if quick else 10)]
    us += [("large", n) for n in ((9, 17) if quick else (9, 12, 16, 17, 20))]
    for grand in ((2.0,) if quick else (2.0, 0.0, -1.0)):
        us += [("lat3", i, i + 256, grand) for i in range(0, 4096, 256)]
    g3 = A.a3_sa()
    for i, g in enumerate(g3):
        if i % (40 if quick else 8) == seed % (40 if quick else 8):
            us.append(("tables", 3, A.shifted(g, A.ADD3), 3))
    reps = A.a4_sa_reps(seed)
    for i, g in enumerate(reps):
        if i % (45 if quick else 12) == seed % (45 if quick else 12):
            us.append(("tables", 4, A.shifted(g, A.ADD4), 4 if quick else 6))
    sam3, sam4 = A.a3_sam(), A.a4_sam()
    for k in range(4 if quick else 16):
        us.append(("tables", 3, sam3[(29 * (seed + 1) + 41 * k) % len(sam3)], 3, ("sam_apx_1", "sam_apx_10")[k % 2]))
    us.append(("tables", 4, sam4[(13 * (seed + 1)) % len(sam4)], 10 if not quick else 10, "sam_apx_1"))
    run.rule = ("(i) real compute_exploitability executed on indeterminate bounds for each n: exact coefficient +-1/C(n,|S|) of every upper/lower "
                "bound, grand coalition cancels; (ii) every unit bound vector (a basis) through the real float path; (iii) all 4096 three-player bound "
                "vectors with (l,u) in {(0,0),(0,1),(-1,1),(1,1)} per coalition and canonical tables of the real computer (n=3,4): value == weighted gap, "
                ">= 0, == 0 iff degenerate; (iv) for each of them ALL vertex completions of the box: per-player maximum used == max over vertices of the "
                "orderings Shapley value. non-trivial = bound vectors with a non-degenerate interval")
    run.bounds = {"guard_n": [2, 7 if quick else 9], "basis_n": [2, 6 if quick else 9], "vertex_enumeration": "<= 10 non-degenerate intervals",
                  "numerical_beyond_n": [9, 17] if quick else [9, 12, 16, 17]}
    run.assumptions = ["a linear functional attains its maximum over a box at a vertex; linearity is established by the guard run (E5) and C06",
                       "float comparison tolerance 1e-11*scale*n"]
    run.add(fanout(dispatch, sorted(us, key=lambda u: -({"tables": 50, "lat3": 20, "large": 1000 * u[1]}.get(u[0], u[1])))))


def replay(doc: dict):
    st = Stats()
    if doc.get("generic"):
        st = guard_unit(doc["n"])
    elif doc.get("large"):
        st = large_unit(("large", doc["n"]))
    else:
        check_vector(st, doc["n"], doc["lower"], doc["upper"], doc["grand"], "replay", bool(doc.get("vertices")), bool(doc.get("known_singletons")), bool(doc.get("reported")))
    msgs = [v["message"] for v in st.violations]
    return bool(msgs), f"replay n={doc['n']}: " + ("; ".join(msgs) if msgs else "exploitability identity holds on this input")
