"""C20 — saving results is all-or-nothing under a crash (DESIGN §6 C20).

E3: every OS-level operation boundary of a save (kill), every torn-write byte offset (tear), every injected OSError
(fail), every traced Python line of the save (interrupt) - each followed by a fault-free recovery save.
"""
from __future__ import annotations

import errno
import json
import os
import shutil
import sys
import tempfile
from pathlib import Path

from .. import crashfs, savefx
from ..core import Run, Stats, fanout

PREV = {0: [], 1: [("first", "neg2x3")], 3: [("first", "neg2x3"), ("second run/ü", "tensor"), ("third", "big3k")]}
# long histories: a threshold on the number of runs already in the file (backups, rotation, compaction) only shows up there
PREV[12] = [(f"run-{i:02d}", "neg2x3" if i % 3 else "tensor") for i in range(12)]
PREV[33] = [(f"run-{i:02d}", "neg2x3") for i in range(33)]


# the results file is a symbolic link into a shared store (with one earlier run behind it / dangling)
PREV["1-symlink"] = PREV[1]
PREV["0-symlink"] = []


def build_old(root: str, n_prev) -> None:
    os.makedirs(root, exist_ok=True)
    for name, kind in PREV[n_prev]:
        savefx.call_save_json(Path(root) / "data.json", name, savefx.make_output(kind, name))
    if str(n_prev).endswith("symlink"):
        if os.path.exists(os.path.join(root, "data.json")):
            os.rename(os.path.join(root, "data.json"), os.path.join(root, "store.json"))
        os.symlink("store.json", os.path.join(root, "data.json"))      # relative: survives copying the directory with symlinks=True


def run_save(root: str, new_kind: str, ctl: crashfs.Controller | None, tracer=None) -> str:
    """One save of the new result in directory root under the given controller. Returns how it ended."""
    out = savefx.make_output(new_kind, "new")
    path = Path(root) / "data.json"
    try:
        if ctl is None:
            savefx.call_save_json(path, "new", out)
        else:
            with crashfs.active(ctl):
                if tracer is not None:
                    sys.settrace(tracer)
                try:
                    savefx.call_save_json(path, "new", out)
                finally:
                    if tracer is not None:
                        sys.settrace(None)
        return "completed"
    except crashfs.Killed:
        return "killed"
    except KeyboardInterrupt:
        return "interrupted"
    except OSError as e:
        return f"oserror:{e.errno}"
    except Exception as e:  # noqa: BLE001
        return f"exception:{type(e).__name__}"


def judge(root: str, old: bytes | None, new: bytes, n_prev: int, fault: str, how: str) -> str | None:
    """The all-or-nothing oracle + recovery save."""
    p = os.path.join(root, "data.json")
    cur = open(p, "rb").read() if os.path.exists(p) else None
    if cur != old and cur != new:
        desc = "absent" if cur is None else f"{len(cur)} bytes"
        return (f"after {fault} ({how}) the results file is {desc}: neither the previous file ({'absent' if old is None else str(len(old)) + ' bytes'}) "
                f"nor the complete new file ({len(new)} bytes)" + (f"; it starts with {cur[:60]!r}" if cur else ""))
    if cur is not None:
        try:
            parsed = json.loads(cur)
        except Exception as e:  # noqa: BLE001
            return f"after {fault} the results file does not parse: {e}"
        for name, _ in PREV[n_prev]:
            if name not in parsed:
                return f"after {fault} the previously saved run {name!r} is lost"
    # recovery: a later fault-free save of another name must work and keep everything
    try:
        savefx.call_save_json(Path(p), "recovery", savefx.make_output("int", "recovery"))
        parsed = json.loads(open(p, "rb").read())
    except Exception as e:  # noqa: BLE001
        return f"after {fault} a later save fails: {type(e).__name__}: {e}"
    for name in [nm for nm, _ in PREV[n_prev]] + ["recovery"]:
        if name not in parsed:
            return f"after {fault} and a recovery save, run {name!r} is missing"
    return None


class LineInterrupter:
    """Raises KeyboardInterrupt at the k-th traced line event of frames in the save module / json encoder / pathlib."""

    FILES = (os.sep + "run" + os.sep + "save.py", os.sep + "json" + os.sep + "encoder.py", os.sep + "json" + os.sep + "__init__.py", "pathlib.py")

    def __init__(self, k: int) -> None:
        self.k = k
        self.count = 0

    def __call__(self, frame, event, arg):
        fn = frame.f_code.co_filename
        if not fn.endswith(self.FILES):
            return None
        return self.local

    def local(self, frame, event, arg):
        if event == "line":
            if self.count == self.k:
                self.count += 1
                raise KeyboardInterrupt(f"injected at traced line {self.k}: {os.path.basename(frame.f_code.co_filename)}:{frame.f_lineno}")
            self.count += 1
        return self.local


def unit(u) -> Stats:
    n_prev, new_kind, part = u[:3]
    cap = u[3] if len(u) > 3 else 1500
    shard_k, shard_m = u[4] if len(u) > 4 else (0, 1)
    st = Stats()
    doc = {"n_prev": n_prev, "new_kind": new_kind}
    base = tempfile.mkdtemp(prefix="icverif-c20-")
    try:
        oldroot = os.path.join(base, "old")
        build_old(oldroot, n_prev)
        p_old = os.path.join(oldroot, "data.json")
        old = open(p_old, "rb").read() if os.path.exists(p_old) else None
        # recording run
        rec = os.path.join(base, "rec")
        shutil.copytree(oldroot, rec, symlinks=True)
        ctl = crashfs.Controller("record", root=None)
        how = run_save(rec, new_kind, ctl)
        if how != "completed":
            st.violation(f"[save n_prev={n_prev} {new_kind}] the fault-free save did not complete: {how}", fault="none", **doc)
            return st
        new = open(os.path.join(rec, "data.json"), "rb").read()
        ops = list(ctl.ops)
        # the layer itself must be transparent: same bytes as a save without the layer
        plain = os.path.join(base, "plain")
        shutil.copytree(oldroot, plain, symlinks=True)
        run_save(plain, new_kind, None)
        if open(os.path.join(plain, "data.json"), "rb").read() != new:
            raise RuntimeError("CrashFS is not transparent: a recorded save differs from a plain save")
        counter = [0]

        def attempt(fault: str, mk_ctl, tracer=None, real_kill_at: int | None = None) -> None:
            counter[0] += 1
            if counter[0] % shard_m != shard_k:       # the attempts of one unit are dealt round-robin to shard_m parallel shards
                return
            d = os.path.join(base, f"f{counter[0]}")
            shutil.copytree(oldroot, d, symlinks=True)
            c = mk_ctl(None) if mk_ctl else crashfs.Controller("record", root=None)
            how = run_save(d, new_kind, c, tracer)
            st.transitions += 1
            st.evals += 1
            snap = crashfs.snapshot_dir(d)
            st.outcomes.add(hash(tuple(sorted((k, v) for k, v in snap.items()))))
            if snap.get("data.json") not in (old, new) or "data.json" not in snap and old is not None:
                st.nontrivial += 0
            if snap != crashfs.snapshot_dir(oldroot):
                st.nontrivial += 1
            if real_kill_at is not None:
                # conformance: a forked child that really dies at the same operation must leave the same directory
                d2 = os.path.join(base, f"r{counter[0]}")
                shutil.copytree(oldroot, d2, symlinks=True)
                pid = os.fork()
                if pid == 0:
                    try:
                        run_save(d2, new_kind, crashfs.Controller("realkill", real_kill_at, root=None))
                    finally:
                        os._exit(0)
                os.waitpid(pid, 0)
                st.traces += 1
                if crashfs.snapshot_dir(d2) != snap:
                    raise RuntimeError(f"dead-mode simulation of kill({real_kill_at}) differs from a real process death at that operation")
                shutil.rmtree(d2, ignore_errors=True)
            msg = judge(d, old, new, n_prev, fault, how)
            if msg:
                st.violation(f"[save n_prev={n_prev} new={new_kind}] {msg}", fault=fault, os_ops=[list(map(str, o)) for o in ops], **doc)
            shutil.rmtree(d, ignore_errors=True)

        if part == "kill":
            for i in range(len(ops) + 1):
                attempt(f"kill({i}) before {ops[i][0] if i < len(ops) else 'end'}", lambda d, i=i: crashfs.Controller("kill", i, root=d), real_kill_at=i)
                if st.nviol >= 3:
                    return st
        elif part == "tear":
            for i, op in enumerate(ops):
                if op[0] != "WRITE":
                    continue
                size = op[2]
                offs = range(size + 1) if size <= 2048 else sorted(set(list(range(0, 65)) + list(range(size - 64, size + 1)) + list(range(0, size, 97))))
                if size > 2048:
                    st.note("torn writes of payloads > 2 KiB: first/last 64 byte offsets and every 97th in between")
                for b in offs:
                    attempt(f"tear({i},{b}) of {size} bytes", lambda d, i=i, b=b: crashfs.Controller("tear", i, b, root=d))
                    if st.nviol >= 3:
                        return st
        elif part == "fail":
            for i, op in enumerate(ops):
                errs = (errno.ENOSPC, errno.EIO) + ((errno.EXDEV,) if op[0] in ("REPLACE", "RENAME", "LINK") else ())
                for e in errs:
                    attempt(f"fail({i},{errno.errorcode[e]}) at {op[0]}", lambda d, i=i, e=e: crashfs.Controller("fail", i, err=e, root=d))
                    if st.nviol >= 3:
                        return st
        elif part == "fail+kill":
            # fault sequences of length 2: an I/O error the program survives, followed by process death at any later operation
            # (explores error-handling / fallback paths the single faults never reach)
            for i, op in enumerate(ops):
                # a rename that fails with EXDEV models "temporary file on another filesystem" (a move then degrades to a copy)
                for e in (errno.ENOSPC,) + ((errno.EXDEV,) if op[0] in ("REPLACE", "RENAME", "LINK") else ()):
                    d0 = os.path.join(base, f"p{i}-{e}")
                    shutil.copytree(oldroot, d0, symlinks=True)
                    c0 = crashfs.Controller("fail", i, err=e, root=None)
                    run_save(d0, new_kind, c0)
                    n_after = len(c0.ops)
                    shutil.rmtree(d0, ignore_errors=True)
                    for j in range(i + 1, n_after + 1):
                        attempt(f"fail({i},{errno.errorcode[e]}) at {op[0]} then kill({j})",
                                lambda d, i=i, j=j, e=e: crashfs.Controller("fail", i, err=e, root=d, then_kill_at=j))
                        if st.nviol >= 3:
                            return st
        elif part == "interrupt":
            probe = LineInterrupter(-1)
            d = os.path.join(base, "probe")
            shutil.copytree(oldroot, d, symlinks=True)
            run_save(d, new_kind, crashfs.Controller("record", root=None), probe)
            total = probe.count
            if shard_k == 0:
                st.count(f"traced_lines[{n_prev},{new_kind}]", total)
            step = 1 if total <= cap else total // cap + 1
            if step > 1:
                st.cap(f"interrupt injection at every {step}th of {total} traced lines (n_prev={n_prev}, {new_kind}); all OS-level boundaries are still covered by kill/fail")
            for k in list(range(0, total, step)) + list(range(max(0, total - 40), total)):
                attempt(f"KeyboardInterrupt at traced line {k} of {total}", None, tracer=LineInterrupter(k))
                if st.nviol >= 3:
                    return st
        st.states = len(st.outcomes)
        if shard_k == 0:
            st.count(f"os_ops[{n_prev},{new_kind},{part}]", len(ops))
        if part == "kill" and n_prev == 1 and new_kind == "neg2x3":
            st.sample({"n_prev": n_prev, "new": new_kind, "os_level_operations_of_one_save": [list(map(str, o)) for o in ops]})
    finally:
        shutil.rmtree(base, ignore_errors=True)
    return st


def run(run: Run) -> None:
    quick = run.quick
    us = []
    for n_prev in (0, 1, 3):
        for new_kind in ("neg2x3", "big3k", "big40k"):
            for part in ("kill", "tear", "fail", "fail+kill", "interrupt"):
                if quick and new_kind == "big40k" and (part == "interrupt" or (part == "tear" and n_prev != 1)):
                    continue
                shards = 6 if (part in ("tear", "interrupt") and new_kind != "neg2x3") else 2 if part in ("tear", "interrupt") else 1
                for k in range(shards):
                    us.append((n_prev, new_kind, part, 250 if quick else 3000, (k, shards)))
    for n_prev in (12,) if quick else (12, 33):
        for new_kind in ("neg2x3", "big3k"):
            for part in ("kill", "fail", "fail+kill") + (("tear",) if new_kind == "neg2x3" else ()):
                us.append((n_prev, new_kind, part, 250 if quick else 3000, (0, 1)))
    for n_prev in ("1-symlink", "0-symlink"):
        for new_kind in ("neg2x3", "big3k"):
            for part in ("kill", "fail", "fail+kill", "tear"):
                us.append((n_prev, new_kind, part, 250 if quick else 3000, (0, 1)))
    run.rule = ("file histories with 0 / 1 / 3 / 12 (33) earlier runs (and data.json being a symbolic link into a store, live or dangling) x new result of ~200 B / ~3 KiB / ~40 KiB x { kill before EVERY OS-level operation (and after the "
                "last), EVERY byte offset of every write torn (payloads <= 2 KiB; first/last 64 and every 97th offset above), ENOSPC and EIO injected at EVERY "
                "operation, fault sequences (an injected ENOSPC the program survives, then death before any later operation), KeyboardInterrupt at every traced Python line of the save } each followed by a fault-free recovery save; oracle: data.json is "
                "byte-identical to the old file or to the complete new file, parses, keeps every earlier run. states = distinct directory contents "
                "observed; non-trivial = faults after which the directory differs from the old one")
    run.bounds = {"earlier_runs": [0, 1, 3, 12] if quick else [0, 1, 3, 12, 33], "result_sizes": ["~200B", "~3KiB", "~40KiB"], "units": len(us)}
    run.assumptions = ["process death and Python-level interruption, not power loss: no fsync is demanded, unsynced pages are not modelled",
                       "every kill(i) is cross-checked against a forked child that really os._exit()s at operation i (traces_validated_against_impl)"]
    run.add(fanout(unit, sorted(us, key=lambda u: -({"big40k": 40, "big3k": 3}.get(u[1], 1) * {"tear": 5, "interrupt": 5}.get(u[2], 1))), chunk=1))
    # state counts of separate units are separate directories
    run.stats.states = max(run.stats.states, 1)


def replay(doc: dict):
    n_prev, new_kind, fault = doc["n_prev"], doc["new_kind"], doc.get("fault", "")
    part = "kill" if fault.startswith("kill") else "tear" if fault.startswith("tear") else "fail+kill" if "then kill" in fault else \
        "fail" if fault.startswith("fail") else "interrupt"
    st = unit((n_prev, new_kind, part, 400))
    msgs = [v["message"] for v in st.violations]
    return bool(msgs), "; ".join(msgs[:3]) if msgs else f"all {part} faults leave either the old or the complete new file"
