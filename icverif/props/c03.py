"""C03 — cached and reference superadditive bound computers are interchangeable (DESIGN §6 C03)."""
from __future__ import annotations

import hashlib
import itertools

import numpy as np

from .. import alphabets as A
from .. import gens
from ..core import HarnessError, Run, Stats, fanout
from ..lattice import Checker, LatticeRun, Tab, apply_op, new_game, read, replay_lattice, run_history

REF, CACHED = "superadditive", "superadditive_cached"


class Recorder(Checker):
    """Records every clean table of the reference computer in visiting order."""

    def __init__(self) -> None:
        self.seq: list[tuple[int, str, Tab]] = []

    def clean(self, K, tab, how):
        self.seq.append((K, how, tab))
        return None


def same(t1: Tab, t2: Tab, rtol: float) -> bool:
    if t1.key == t2.key:
        return True
    if rtol == 0.0:
        return False
    return bool(t1.k == t2.k and np.allclose(t1.lo, t2.lo, rtol=rtol, atol=rtol) and np.allclose(t1.up, t2.up, rtol=rtol, atol=rtol))


def describe(n, t_ref: Tab, t_c: Tab) -> str:
    diff = [s for s in range(1 << n) if t_ref.lo[s] != t_c.lo[s] or t_ref.up[s] != t_c.up[s]]
    return (f"cached and reference computers differ on coalitions {diff}: reference lower={t_ref.lo.tolist()} upper={t_ref.up.tolist()}; "
            f"cached lower={t_c.lo.tolist()} upper={t_c.up.tolist()}")


class Twin(Checker):
    """Lock-step comparison: the cached computer is driven through the same exploration as the reference one; the i-th
    clean table must equal the reference's i-th clean table."""

    def __init__(self, n, v, ref_seq, rtol) -> None:
        self.n, self.v, self.ref, self.rtol = n, v, ref_seq, rtol
        self.i = 0
        self.nontrivial = set()

    def clean(self, K, tab, how):
        if self.i >= len(self.ref):
            raise HarnessError("twin explorations diverged in length")
        K0, how0, t0 = self.ref[self.i]
        self.i += 1
        if K0 != K or how0 != how:
            raise HarnessError(f"twin explorations diverged: {(K0, how0)} vs {(K, how)}")
        if np.any(tab.lo != tab.up):
            self.nontrivial.add(K)
        if not same(t0, tab, self.rtol):
            return f"at knowledge {A.kmask_ids(K)} (reached by {how}) " + describe(self.n, t0, tab)
        return None

    def recheck(self, K, tab, history):
        t0 = read(run_history(self.n, REF, self.v, history))
        return None if same(t0, tab, self.rtol) else describe(self.n, t0, tab)


def explore(lr: LatticeRun, n: int, modes) -> None:
    if "few" in modes:
        Ks = A.few_knowledge(n)[:5] if n >= 9 else A.few_knowledge(n)
    else:
        Ks = None if n <= 4 else list(A.layered_knowledge(n, 2 if n == 5 else 1))
    if "pairs" in modes and Ks is not None:
        Ks += list(A.distance2_knowledge(n))
    lr.fresh(Ks=Ks)
    if "euler" in modes:
        lr.euler(compare_canonical=False)
    if "dirty" in modes:
        lr.dirty(2 if n == 3 else 1, Ks=None if n == 3 else list(A.layered_knowledge(n, 1))[:40 if n <= 6 else 6])


def twin_unit(u) -> Stats:
    n, tag, v, modes, rtol = u
    if isinstance(v, tuple) and v and v[0] == "GEN":
        v = gens.draw(v[1], v[2], v[3])
        rtol = 1e-12
    st = Stats()
    rec = Recorder()
    scratch = Stats()
    explore(LatticeRun(n, v, REF, rec, scratch, tag), n, modes)
    if scratch.nviol:          # the reference computer itself failed on a legal operation: report that
        st.merge(scratch)
        return st
    chk = Twin(n, v, rec.seq, rtol)
    explore(LatticeRun(n, v, CACHED, chk, st, tag), n, modes)
    st.nontrivial += len(chk.nontrivial)
    if n == 3 and tag.startswith("shift#11"):
        st.sample({"n": n, "values": list(v), "tables_compared": len(rec.seq), "modes": list(modes)})
    return st


# ----------------------------------------------------------------------------- cache-state explorer

def _bounds_module():
    import incomplete_cooperative.bounds as b
    return b


def clear_caches() -> int:
    """Reset every functools cache reachable from the modules behind the cached computer."""
    import incomplete_cooperative.bounds as b
    import incomplete_cooperative.coalition_ids as ci
    cleared = 0
    for mod in (b, ci):
        for name, obj in list(vars(mod).items()):
            if callable(getattr(obj, "cache_clear", None)):
                obj.cache_clear()
                cleared += 1
    return cleared


def structure_digest(m: int) -> str | None:
    """Digest of the memoised coalition structure for m players vs. a structure built afresh (None if not accessible)."""
    b = _bounds_module()
    f = getattr(b, "_get_sub_super_coalition_structure", None)
    if f is None or not hasattr(f, "__wrapped__"):
        return None
    cached = f(m)
    fresh = f.__wrapped__(m)
    hc = hashlib.sha1(b"".join(np.ascontiguousarray(x).tobytes() for x in cached)).hexdigest()
    hf = hashlib.sha1(b"".join(np.ascontiguousarray(x).tobytes() for x in fresh)).hexdigest()
    return "ok" if hc == hf else f"memoised structure for {m} players was modified in place"


def probe_games(m: int):
    """Exact probe inputs of size m: a shifted |S|^2 game at three knowledge sets."""
    v = tuple(A.popcount(s) ** 2 + sum((1, -1, 2, 0, 3, -2, 1, 0)[i] for i in range(m) if s >> i & 1) for s in range(1 << m))
    base = A.kmask(A.minimal_ids(m))
    ex = A.explorable_ids(m)
    Ks = [base]
    if ex:
        Ks.append(base | 1 << ex[0] | 1 << ex[-1])
        Ks.append(base | A.kmask(ex[::2]))
    return v, Ks


def use_size(m: int, st: Stats, path) -> list[bytes]:
    """One transition of the cache model: first/repeated use of size m by the cached computer (compute 1..3 times)."""
    v, Ks = probe_games(m)
    keys = []
    for K in Ks:
        gc = new_game(m, CACHED)
        gr = new_game(m, REF)
        for g in (gc, gr):
            apply_op(g, v, ("reset", K))
        for rep in range(3):
            gc.compute_bounds()
            gr.compute_bounds()
            tc, tr = read(gc), read(gr)
            st.evals += 1
            if tc.key != tr.key:
                st.violation(f"[cache] after first-use order {path}: cached != reference for {m} players at K={A.kmask_ids(K)} "
                             f"(compute #{rep + 1}): cached lower={tc.lo.tolist()} upper={tc.up.tolist()} reference lower={tr.lo.tolist()} upper={tr.up.tolist()}",
                             engine="cache", path=list(path), m=m, K=A.kmask_ids(K), n=m)
                break
        keys.append(tc.key)
    return keys


def use_sam(m: int) -> None:
    """A state-changing transition only: the approximate SAM computer (which shares the memoised structure) used at size m."""
    v, Ks = probe_games(m)
    for K in Ks[:2]:
        g = new_game(m, "sam_apx_1")
        apply_op(g, v, ("reset", K))
        g.compute_bounds()
        g.compute_bounds()


def do_token(tok, st: Stats, path):
    if tok[0] == "s":
        use_sam(tok[1])
        return None
    return use_size(tok[1], st, path)


def cache_explore(sizes: tuple) -> Stats:
    """BFS over cache states (= set of player counts already memoised). Each (state, size) transition is executed on a
    cache brought into that state by clear + replay; the observable result of using size m must be the same in every state
    and the memoised arrays must stay identical to freshly built ones."""
    st = Stats()
    if clear_caches() == 0:
        st.note("no functools cache found behind the cached computer: cache-state exploration is a plain interleaving test")
    canonical_path: dict[frozenset, tuple] = {frozenset(): ()}
    frontier = [frozenset()]
    result_of: dict[int, list[bytes]] = {}
    seen = {frozenset()}
    # tokens: ("c", m) = the cached computer used at size m (compared with the reference); ("s", m) = the SAM approximation used at
    # size m (it shares the memoised structure: a pure state-changing transition)
    tokens = [("c", m) for m in sizes] + [("s", m) for m in sizes[:3]]
    while frontier:
        nxt = []
        for state in frontier:
            for tok in tokens:
                m = tok[1]
                path = canonical_path[state]
                clear_caches()
                scratch = Stats()
                for p in path:       # restore: replay the canonical first-use path
                    do_token(p, scratch, path)
                keys = do_token(tok, st, path + (tok,))
                st.transitions += 1
                if keys is None:     # SAM transition: afterwards the cached computer must still agree with the reference at that size
                    keys = use_size(m, st, path + (tok, ("c", m)))
                    new_state = frozenset(state | {tok, ("c", m)})
                else:
                    new_state = frozenset(state | {tok})
                for q in sorted({t[1] for t in new_state}):
                    d = structure_digest(q)
                    if d is None:
                        st.note("memoised structure not accessible by its current name: in-place mutation check skipped")
                    elif d != "ok":
                        st.violation(f"[cache] {d} after first-use order {path + (tok,)}", engine="cache", path=[list(t) for t in path + (tok,)], m=q, n=q)
                if m in result_of and result_of[m] != keys:
                    st.violation(f"[cache] result of the cached computer for {m} players depends on what was used before: order {path + (tok,)}",
                                 engine="cache", path=[list(t) for t in path + (tok,)], m=m, n=m)
                result_of.setdefault(m, keys)
                new = new_state
                if new not in seen and len(new) <= len(sizes) + 2:
                    seen.add(new)
                    canonical_path[new] = path + ((tok,) if tok[0] == "c" else (tok, ("c", m)))
                    nxt.append(new)
                    st.states += 1
                if st.nviol >= 3:
                    return st
        frontier = nxt
    st.states += 1
    st.traces += st.transitions
    st.sample({"cache_states": len(seen), "sizes": list(sizes), "example_first_use_order": [list(t) for t in canonical_path[max(seen, key=len)]]})
    # every complete first-use ORDER explicitly for small size sets (each order is a path of the graph above)
    for perm in itertools.permutations(sizes[:4]):
        clear_caches()
        for m in perm:
            keys = use_size(m, st, perm)
            if result_of.get(m) != keys:
                st.violation(f"[cache] result for {m} players differs under first-use order {perm}", engine="cache", path=list(perm), m=m, n=m)
        st.traces += 1
    clear_caches()
    return st


def cache_unit(sizes) -> Stats:
    return cache_explore(tuple(sizes))


def dispatch(u) -> Stats:
    return cache_unit(u[1]) if u[0] == "cache" else twin_unit(u)


def run(run: Run) -> None:
    seed, quick = run.seed, run.quick
    us: list = [("cache", (2, 3, 4, 5) if quick else (2, 3, 4, 5, 6, 7, 8))]
    for i, g in enumerate(A.a3_sa() if quick else A.a3_sa((-2, -1, 0, 1, 2))):
        for tag, gv in A.with_shifts([g], 3):
            us.append((3, f"{tag}#{i}", gv, ("euler", "dirty") if tag == "shift" else ("euler",), 0.0))
        for tag, gv in A.with_scales([g], 3):
            us.append((3, f"{tag}#{i}", gv, (), 0.0))
    games4 = list(enumerate(A.a4_sa_reps(seed))) if quick else list(enumerate(A.a4_sa_full()))
    for i, g in games4:
        variants = A.all_variants(g, 4)
        for j, (tag, gv) in enumerate(variants if not quick else [variants[(i + seed) % 5]]):
            modes = ("euler",) if (quick and i % 15 == seed % 15) or (not quick and j == 1 and i % 64 == seed % 64) else ()
            us.append((4, f"{tag}#{i}", gv, modes, 0.0))
    from .c01 import layered_game
    for n in ((5, 6) if quick else (5, 6, 7, 8)):
        for kind in ("sq", "budget"):
            us.append((n, f"layer-{kind}", A.shifted(layered_game(n, kind), (1, -1, 2, 0, 3, -2, 1, 0)[:n]), ("dirty",) if n == 5 else (), 0.0))
    for i, g in enumerate(A.a5_pair_closure_reps()):
        if quick and i % 3 != seed % 3:
            continue
        us.append((5, f"pairgraph#{i}", A.shifted(g, (1, -1, 2, 0, 3)), (), 0.0))
    for n in ((6,) if quick else (6, 7, 8)):
        for tag, gv in A.larger_n_samples(n):
            if quick and not tag.startswith(("matching-shift", "star-shift", "star+convex")):
                continue
            us.append((n, f"n{n}:{tag}", gv, ("pairs",) if n == 6 else (), 0.0))
    # 7 and 8 players near the minimal information (few values known), negative games, reveal/un-reveal histories; 9 players on a few K
    for n in (7, 8):
        us.append((n, f"n{n}:budget2", A.budget_game(n, 2), ("few", "dirty") if n == 7 else ("few",), 0.0))
        us.append((n, f"n{n}:star+convex", dict(A.larger_n_samples(n))["star+convex"], ("few",), 0.0))
    us.append((9, "n9:budget3", A.budget_game(9, 3), ("few",), 0.0))
    us.append((9, "n9:convex-shift", A.shifted(A.convex_game(9), A.SHIFT_LONG[:9]), ("few",), 0.0))
    # four players, NOT superadditive, many exact ties (324 games x all 1024 knowledge sets)
    for i, g in enumerate(A.a4_any_sample()):
        if quick and i % 3 != seed % 3:
            continue
        us.append((4, f"any4#{i}", g, (), 0.0))
    # five players, no particular class (knowledge that is NOT consistent with superadditivity), K within distance 2 of minimal / full
    for i, g in enumerate(A.a5_any_rule()):
        if quick and i % 2 != seed % 2 and i < 12:
            continue
        us.append((5, f"any5#{i}", g, (), 0.0))
    # non-superadditive inputs are inside "every incomplete game on which both are defined": all of A3-ANY
    for i, g in enumerate(A.a3_any()):
        if quick and i % 3 != seed % 3:
            continue
        us.append((3, f"any#{i}", g, (), 0.0))
    width = 2 if quick else 8
    for name in gens.SA_FAMILIES:
        for n in (3, 4):
            for s in gens.seed_window(seed, width):
                if n == 4 and s != gens.seed_window(seed, width)[0]:
                    continue
                us.append((n, f"gen:{name}:{s}", ("GEN", name, n, s), ("euler",) if n == 3 else (), None))
    run.rule = ("two real game objects, one per computer, driven through the same exploration (fresh object at every K; Euler walk over every "
                "lattice edge; dirty runs) with bit-equality of the complete tables after every compute; plus BFS over the states of the "
                "process-wide memoised coalition structure (which player counts were used first), every (state, size) transition and every "
                "first-use order of 4 sizes. non-trivial = distinct (game, K) whose table has a non-degenerate interval")
    run.bounds = {"n_twin": [3, 4, 5, 6] if quick else [3, 4, 5, 6, 7, 8], "cache_sizes": list(us[0][1]), "units": len(us)}
    run.assumptions = ["float generator games compared with rtol 1e-12 (both paths take max/min over the same two-term sums)",
                       "n>=5 on layered knowledge sets only"]
    us.sort(key=lambda u: -(u[0] if isinstance(u[0], int) else 99))
    run.add(fanout(dispatch, us, chunk=4))


def replay(doc: dict):
    if doc.get("engine") == "cache":
        st = Stats()
        clear_caches()
        path = tuple(tuple(t) if isinstance(t, list) else ("c", t) for t in doc["path"])
        for t in path:
            do_token(t, st, path)
        for m_ in {t[1] for t in path}:
            use_size(m_, st, path)
        bad = [structure_digest(q) for q in {t[1] for t in path}]
        bad = [b for b in bad if b not in (None, "ok")]
        clear_caches()
        msg = "; ".join([v["message"] for v in st.violations] + bad)
        return bool(st.nviol or bad), f"replay first-use order {path}: {msg or 'cached == reference everywhere'}"
    n, v = doc["n"], doc["values"]
    hist = [tuple(h) for h in doc["history"]]
    try:
        t1 = read(run_history(n, REF, v, hist))
        t2 = read(run_history(n, CACHED, v, hist))
    except Exception as e:  # noqa: BLE001
        return True, f"replay n={n} values={v} history={hist[:12]}: operation raised {type(e).__name__}: {e}"
    rtol = 1e-12 if str(doc.get("tag", "")).startswith("gen:") else 0.0
    ok = same(t1, t2, rtol)
    return (not ok), (f"replay n={n} values={v} history ({len(hist)} ops)={hist[:12]}\nreference lower={t1.lo.tolist()} upper={t1.up.tolist()}\n"
                      f"cached    lower={t2.lo.tolist()} upper={t2.up.tolist()}\n{'equal' if ok else 'DIFFERENT'}")
