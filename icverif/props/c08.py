"""C08 — bounds depend only on current knowledge: idempotent, order-free, undoable (DESIGN §6 C08)."""
from __future__ import annotations

from .. import alphabets as A
from .. import envs, gaps
from ..core import Run, Stats, fanout
from ..lattice import Checker, LatticeRun, replay_lattice

FAST = ("superadditive", "superadditive_cached", "sam_apx_1", "sam_apx_10")
ALL6 = FAST + ("sam_apx_100", "sam_apx_1000")


def lattice_unit(u) -> Stats:
    _, n, tag, v, comps, modes = u
    st = Stats()
    for comp in comps:
        lr = LatticeRun(n, v, comp, Checker(), st, tag)
        before = len(st.outcomes)
        if "fresh" in modes:
            lr.fresh(keep_objects=True)
        if "euler" in modes:
            lr.euler()
        d = 3 if "dirty3" in modes else 2 if "dirty2" in modes else 1 if "dirty1" in modes else 0
        if comp == "sam_apx_1000":
            d = 0
        elif comp == "sam_apx_100":
            d = min(d, 1)
        if d:
            Ks = None if n == 3 else list(A.layered_knowledge(n, 1))[:24]
            lr.dirty(d, Ks=Ks, resets=True, extra_ops=True)
        # the clean tables are a function of K: #distinct clean digests <= #K explored
        st.nontrivial += len(st.outcomes) - before
    if n == 3 and tag == "any#1000":
        st.sample({"n": n, "values": list(v), "computers": list(comps), "modes": list(modes),
                   "ops": ["reveal", "unreveal", "reset", "set", "unset", "compute"]})
    return st


def env_unit(u) -> Stats:
    """step(a) then unstep(a) from EVERY env state restores observation, reward, done, mask and table exactly."""
    _, n, tag, v, comp, gap_name = u
    st = Stats()
    gap = gaps.registry()[gap_name]
    try:
        env = envs.make_env(n, envs.Script([v]), comp, gap)
    except Exception as e:  # noqa: BLE001
        st.violation(f"[env n={n} {comp} {gap_name}] constructing the environment raised {type(e).__name__}: {e}", n=n, values=list(v))
        return st
    ex = envs.explorable(env)
    hist: list = []
    visited = {0}
    stack: list[tuple[int, int]] = []
    K, idx = 0, 0          # K = bitmask over action indices
    st.states += 1
    while True:
        if idx < len(ex):
            a = idx
            idx += 1
            if K >> a & 1:
                continue
            before = envs.observe(env)
            hist.append(("step", a))
            try:
                env.step(a)
                st.transitions += 1
                K1 = K | 1 << a
                if K1 not in visited:
                    visited.add(K1)
                    st.states += 1
                    stack.append((K, idx, before))
                    K, idx = K1, 0
                    continue
                hist.append(("unstep", a))
                env.unstep(a)
                st.transitions += 1
            except Exception as e:  # noqa: BLE001
                st.violation(f"[env n={n} {comp} {gap_name} {tag}] {hist[-1]} raised {type(e).__name__}: {e}", engine="env",
                             n=n, values=list(v), computer=comp, gap=gap_name, history=[list(h) for h in hist])
                return st
            after = envs.observe(env)
        else:
            if not stack:
                break
            K0, idx0, before = stack.pop()
            a = idx0 - 1
            hist.append(("unstep", a))
            try:
                env.unstep(a)
                st.transitions += 1
            except Exception as e:  # noqa: BLE001
                st.violation(f"[env n={n} {comp} {gap_name} {tag}] unstep raised {type(e).__name__}: {e}", engine="env",
                             n=n, values=list(v), computer=comp, gap=gap_name, history=[list(h) for h in hist])
                return st
            K, idx = K0, idx0
            after = envs.observe(env)
        st.evals += 1
        if before != after:
            fields = [f for f in before._fields if getattr(before, f) != getattr(after, f)]
            short = [("step", i) for i in range(len(ex)) if K >> i & 1] + [("step", a), ("unstep", a)]
            st.violation(f"[env n={n} {comp} {gap_name} {tag}] step({a}) followed by unstep({a}) did not restore {fields}: "
                         f"reward {before.reward} -> {after.reward}, steps {before.steps} -> {after.steps}",
                         engine="env", n=n, values=list(v), computer=comp, gap=gap_name, history=[list(h) for h in short],
                         full_history_len=len(hist))
            if st.nviol >= 3:
                return st
        else:
            st.nontrivial += 1
    st.traces += 1
    if n == 3 and gap_name == "l2_norm":
        st.sample({"env_walk": [list(h) for h in hist[:14]], "n": n, "values": list(v), "computer": comp, "gap": gap_name})
    return st


def dispatch(u) -> Stats:
    return env_unit(u) if u[0] == "env" else lattice_unit(u)


def units(run: Run):
    seed, quick = run.seed, run.quick
    us: list = []
    mod = 3 if quick else 1
    pools = [("any", A.a3_any()), ("sa", A.a3_sa())]
    for name, pool in pools:
        for i, g in enumerate(pool):
            if i % mod != seed % mod:
                continue
            deep = (i // mod) % (8 if quick else 1) == (seed % 8 if quick else 0)
            modes = ("fresh", "euler", "dirty2" if deep else "dirty1")
            if not quick and i % 16 == seed % 16:
                modes = ("fresh", "euler", "dirty3")
            us.append(("lat", 3, f"{name}#{i}", g, FAST, modes))
            if (i // mod) % (4 if quick else 1) == 0:
                us.append(("lat", 3, f"{name}#{i}", g, ("sam_apx_100",), ("fresh", "euler", "dirty1")))
    small = [g for g in A.a3_sa((0, 1, 2))]
    for i, g in enumerate(small):
        if quick and i % 4 != seed % 4:
            continue
        us.append(("lat", 3, f"sa012#{i}", g, ("sam_apx_1000",), ("fresh", "euler")))
    reps = A.a4_sa_reps(seed)
    stride = 22 if quick else 4
    for i, g in enumerate(reps):
        if i % stride != seed % stride:
            continue
        gv = A.shifted(g, A.ADD4)
        for comp in FAST[:3]:
            us.append(("lat", 4, f"shift#{i}", gv, (comp,), ("euler", "dirty1")))
    for i, g in enumerate(reps):
        if i % (90 if quick else 20) == seed % (90 if quick else 20):
            us.append(("lat", 4, f"plain#{i}", g, ("sam_apx_10",), ("euler",)))
    sam4 = A.a4_sam()
    for i, g in enumerate(sam4):
        if i % (70 if quick else 12) == seed % (70 if quick else 12):
            us.append(("lat", 4, f"sam#{i}", g, ("sam_apx_1",), ("euler", "dirty1")))
    # env level
    g3 = A.a3_sa()
    for i, g in enumerate(g3):
        if i % (16 if quick else 2) != seed % (16 if quick else 2):
            continue
        gv = A.shifted(g, A.ADD3)
        for comp in ("superadditive", "superadditive_cached", "sam_apx_1"):
            for gap_name in gaps.NAMES:
                us.append(("env", 3, f"shift#{i}", gv, comp, gap_name))
    for i, g in enumerate(reps):
        if i % (90 if quick else 18) == seed % (90 if quick else 18):
            for comp, gap_name in (("superadditive_cached", "exploitability"), ("superadditive", "l1_norm")):
                us.append(("env", 4, f"shift#{i}", A.shifted(g, A.ADD4), comp, gap_name))
    return us


def cost(u) -> float:
    if u[0] == "env":
        return 2000 if u[1] == 4 else 1
    w = {"superadditive": 3, "superadditive_cached": 1.5, "sam_apx_1": 3, "sam_apx_10": 10, "sam_apx_100": 5, "sam_apx_1000": 50}
    return (1 if u[1] == 3 else 1000) * sum(w[c] for c in u[4])


def run(run: Run) -> None:
    us = units(run)
    run.rule = ("all six registered computers; hidden games of ANY class (A3-ANY: all 3-player games over {-1,0,1}; A3-SA; A4-SA); per game and "
                "computer: canonical table of a fresh object at every K, Euler walk over every reveal/un-reveal edge on one long-lived object "
                "(table must equal the canonical one bit for bit after every compute), BFS over dirty runs of <= d operations from "
                "{reveal, unreveal, bulk reset, set, unset} closed by compute, compute twice == once; env level: step(a);unstep(a) from every "
                "env state restores observation, reward, done, mask, step counter and table exactly. non-trivial = distinct clean tables / undo pairs")
    run.bounds = {"n": [3, 4], "dirty_run": {"quick": "1 (2 on 1/8 of the games)", "thorough": "2 (3 on 1/16)"}[run.tier],
                  "games": "1/3 of A3-ANY and A3-SA per seed (quick) / all (thorough)", "units": len(us)}
    run.assumptions = ["sam_apx_1000 is explored at n=3 on games over {0,1,2} without dirty runs (48 ms per compute)",
                       "snapshot/restore uses the public copy(); the Euler walk uses no restore at all"]
    us.sort(key=lambda u: -cost(u))
    run.add(fanout(dispatch, us, chunk=2))


def replay(doc: dict):
    if doc.get("engine") == "env":
        n, v, comp = doc["n"], doc["values"], doc["computer"]
        env = envs.make_env(n, envs.Script([v]), comp, gaps.registry()[doc["gap"]])
        hist = [tuple(h) for h in doc["history"]]
        try:
            for op, a in hist[:-2]:
                getattr(env, op)(a)
            before = envs.observe(env)
            for op, a in hist[-2:]:
                getattr(env, op)(a)
            after = envs.observe(env)
        except Exception as e:  # noqa: BLE001
            return True, f"env replay {hist}: raised {type(e).__name__}: {e}"
        fields = [f for f in before._fields if getattr(before, f) != getattr(after, f)]
        return bool(fields), f"env replay n={n} computer={comp} gap={doc['gap']} values={v} history={hist}: fields not restored: {fields}"
    return replay_lattice(doc, lambda d: Checker())
