"""C08 — bounds depend only on current knowledge: idempotent, order-free, undoable (DESIGN §6 C08)."""
from __future__ import annotations

from .. import alphabets as A
from .. import envs, gaps
from ..core import Run, Stats, fanout
from ..lattice import Checker, LatticeRun, replay_lattice

FAST = ("superadditive", "superadditive_cached", "sam_apx_1", "sam_apx_10")
ALL6 = FAST + ("sam_apx_100", "sam_apx_1000")


def lattice_unit(u) -> Stats:
    _, n, tag, v, comps, modes = u
    st = Stats()
    for comp in comps:
        lr = LatticeRun(n, v, comp, Checker(), st, tag)
        before = len(st.outcomes)
        if "fresh" in modes:
            lr.fresh(keep_objects=True, Ks=None if n <= 4 else list(A.layered_knowledge(n, 1))[:30])
        if "euler" in modes:
            lr.euler()
        d = 3 if "dirty3" in modes else 2 if "dirty2" in modes else 1 if "dirty1" in modes else 0
        if comp == "sam_apx_1000":
            d = 0
        elif comp == "sam_apx_100":
            d = min(d, 1)
        if d:
            Ks = None if n == 3 else list(A.layered_knowledge(n, 1))[:24]
            # histories may also re-reveal / overwrite a coalition with a DIFFERENT value (knowledge = which AND their values)
            ex = set(A.explorable_ids(n))
            lr.v2 = tuple(x + 1 if s in ex else x for s, x in enumerate(v))
            lr.dirty(d, Ks=Ks, resets=True, extra_ops=True)
        # the clean tables are a function of K: #distinct clean digests <= #K explored
        st.nontrivial += len(st.outcomes) - before
    if n == 3 and tag == "any#1000":
        st.sample({"n": n, "values": list(v), "computers": list(comps), "modes": list(modes),
                   "ops": ["reveal", "unreveal", "reset", "set", "unset", "reveal_alt (other value)", "set_alt (overwrite known with other value)", "compute"]})
    return st


def env_unit(u) -> Stats:
    """Environment level: BFS to closure over step(a) / unstep(a) for EVERY revealed a (any order, not only last-in-first-out);
    in every state all observables (observation, reward, done, mask, step counter, table) must equal, bit for bit, those of a
    fresh environment that revealed the same set in ascending order."""
    _, n, tag, v, comp, gap_name = u[:6]
    known_extra = u[6] if len(u) > 6 else ()
    depth = u[7] if len(u) > 7 else None
    from ..envmodel import EnvCfg, explore_env
    st = Stats()
    cfg = EnvCfg(n, [v], comp, gap_name, None, tag, 0.0, known_extra)
    explore_env(st, cfg, "differential", max_depth=depth, with_reset=True)
    if n == 3 and gap_name == "l2_norm" and comp == "superadditive":
        st.sample({"env_ops": ["step(a)", "unstep(a) for any revealed a", "reset"], "n": n, "values": list(v), "computer": comp, "gap": gap_name,
                   "model_states": st.counters.get("env_model_states")})
    return st


def poke_unit(u) -> Stats:
    """The env's incomplete game is a public object: a value set on it directly (not the hidden game's) is knowledge like any other.
    step(a); unstep(a) of ANOTHER coalition must restore bounds, reward, observation and that value exactly."""
    _, n, v, comp, gap_name = u
    from .. import envs as E
    st = Stats()
    gap = gaps.registry()[gap_name]
    env = E.make_env(n, E.Script([v]), comp, gap)
    ex = E.explorable(env)
    from ..lattice import coal
    for c_idx, c in enumerate(ex):
        for delta in (0.5, -1.0):
            env.reset()
            hist = [("reset",), ("poke", c, v[c] + delta)]
            try:
                env.incomplete_game.set_value(v[c] + delta, coal(c))
                env.incomplete_game.compute_bounds()
                for a in range(len(ex)):
                    if a == c_idx:
                        continue
                    before = E.observe(env)
                    env.step(a)
                    env.unstep(a)
                    after = E.observe(env)
                    st.transitions += 2
                    st.evals += 1
                    bad = [f for f in before._fields if getattr(before, f) != getattr(after, f) and f != "steps"]
                    if bad:
                        st.violation(f"[env poke n={n} {comp} {gap_name}] coalition {c} set to {v[c] + delta} through the game object; step({a}); unstep({a}) "
                                     f"did not restore {bad} (reward {before.reward} -> {after.reward})", engine="poke", n=n, values=list(v), computer=comp,
                                     gap=gap_name, history=[list(map(str, h)) for h in hist + [("step", a), ("unstep", a)]])
                        if st.nviol >= 3:
                            return st
                    else:
                        st.nontrivial += 1
            except Exception as e:  # noqa: BLE001
                st.violation(f"[env poke n={n} {comp}] raised {type(e).__name__}: {e}", engine="poke", n=n, values=list(v), computer=comp, gap=gap_name,
                             history=[list(map(str, h)) for h in hist])
                return st
            st.states += 1
    return st


def wc6_unit(u) -> Stats:
    """SAM computers on the WC6 family (repetitions matter there): path independence on the sub-lattice spanned by two known triples
    and two probes, one long-lived object."""
    _, games, comps = u
    from .. import sam6
    st = Stats()
    for tag, v in games:
        for comp in comps:
            before = len(st.outcomes)
            sam6.sublattice(st, v, comp, Checker(), tag)
            probes = [c for c in A.explorable_ids(6)] if tag.endswith(":sensitive") else sam6.probe_coalitions()
            sam6.star(st, v, comp, Checker(), tag, probes, compare_canonical=True)
            st.nontrivial += len(st.outcomes) - before
            if st.nviol >= 3:
                return st
    return st


def dispatch(u) -> Stats:
    if u[0] == "poke":
        return poke_unit(u)
    if u[0] == "wc6":
        return wc6_unit(u)
    return env_unit(u) if u[0] == "env" else lattice_unit(u)


def units(run: Run):
    seed, quick = run.seed, run.quick
    us: list = []
    mod = 3 if quick else 1
    pools = [("any", A.a3_any()), ("sa", A.a3_sa())]
    for name, pool in pools:
        for i, g in enumerate(pool):
            if i % mod != seed % mod:
                continue
            deep = (i // mod) % (8 if quick else 1) == (seed % 8 if quick else 0)
            modes = ("fresh", "euler", "dirty2" if deep else "dirty1")
            if not quick and i % 16 == seed % 16:
                modes = ("fresh", "euler", "dirty3")
            us.append(("lat", 3, f"{name}#{i}", g, FAST, modes))
            if (i // mod) % (4 if quick else 1) == 0:
                us.append(("lat", 3, f"{name}#{i}", g, ("sam_apx_100",), ("fresh", "euler", "dirty1")))
    small = [g for g in A.a3_sa((0, 1, 2))]
    for i, g in enumerate(small):
        if quick and i % 4 != seed % 4:
            continue
        us.append(("lat", 3, f"sa012#{i}", g, ("sam_apx_1000",), ("fresh", "euler")))
    reps = A.a4_sa_reps(seed)
    stride = 22 if quick else 4
    for i, g in enumerate(reps):
        if i % stride != seed % stride:
            continue
        gv = A.shifted(g, A.ADD4)
        for comp in FAST[:3]:
            us.append(("lat", 4, f"shift#{i}", gv, (comp,), ("euler", "dirty1")))
    for i, g in enumerate(reps):
        if i % (90 if quick else 20) == seed % (90 if quick else 20):
            us.append(("lat", 4, f"plain#{i}", g, ("sam_apx_10",), ("euler",)))
    sam4 = A.a4_sam()
    for i, g in enumerate(sam4):
        if i % (70 if quick else 12) == seed % (70 if quick else 12):
            us.append(("lat", 4, f"sam#{i}", g, ("sam_apx_1",), ("euler", "dirty1")))
    # larger player counts: dirty runs (incl. alt-value operations) from knowledge sets near minimal / full
    for n in ((5, 6) if quick else (5, 6, 7)):
        samples = A.larger_n_samples(n) if n >= 6 else [("pairgraph", A.shifted(g, A.SHIFT_LONG[:5])) for g in A.a5_pair_closure_reps()[seed % 11::11]]
        for tag, gv in samples[:2 if quick else 4]:
            for comp in (FAST[:3] if n == 5 else FAST[1:3]):
                us.append(("lat", n, f"n{n}:{tag}", gv, (comp,), ("fresh", "dirty1")))
    # WC6: games on which the repetitions of the SAM approximation change bounds (they never do for n <= 4)
    from .. import sam6
    sel = sam6.sensitive_first(list(sam6.family(dense_only=True)), every=12 if quick else 3)
    for i in range(0, len(sel), 6):
        us.append(("wc6", sel[i:i + 6], ("sam_apx_1",) if quick else ("sam_apx_1", "sam_apx_10")))
    # env level
    g3 = A.a3_sa()
    for i, g in enumerate(g3):
        if i % (16 if quick else 2) != seed % (16 if quick else 2):
            continue
        gv = A.shifted(g, A.ADD3)
        for comp in ("superadditive", "superadditive_cached", "sam_apx_1"):
            for gap_name in gaps.NAMES:
                us.append(("env", 3, f"shift#{i}", gv, comp, gap_name))
    for k in range(3 if quick else 12):
        us.append(("poke", 3, A.shifted(g3[(17 * (seed + 1) + 311 * k) % len(g3)], A.ADD3), ("superadditive", "superadditive_cached", "sam_apx_1")[k % 3],
                   gaps.NAMES[k % 4]))
    us.append(("poke", 4, A.shifted(reps[(5 * (seed + 1)) % len(reps)], A.ADD4), "superadditive_cached", "l1_norm"))
    # hidden games of ANY class (a mis-specified game class must still give path-independent observables), tie-heavy integers
    nonsa3 = [g for g in A.a3_any() if not A.is_superadditive(g)]
    for k in range(4 if quick else 16):
        g = nonsa3[(211 * (seed + 1) + 733 * k) % len(nonsa3)]
        us.append(("env", 3, f"nonsa#{k}", g, ("superadditive", "superadditive_cached", "sam_apx_1")[k % 3], gaps.NAMES[k % 4]))
    any4 = A.a4_any_sample()
    for k in range(3 if quick else 12):
        g = any4[(37 * (seed + 1) + 101 * k) % len(any4)]
        pairs = tuple(s for s in range(16) if A.popcount(s) == 2)
        us.append(("env", 4, f"any4#{k}", g, ("superadditive", "superadditive_cached")[k % 2], "l1_norm", pairs if k % 2 else tuple(s for s in range(16) if A.popcount(s) == 3)))
    # SAM computer on a tie-heavy 5-player K-budget game, every sequence of <= 2 operations
    us.append(("env", 5, "budget5-3", A.budget_game(5, 3), "sam_apx_1", "l1_norm", (), 2))
    for i, g in enumerate(reps):
        if i % (90 if quick else 18) == seed % (90 if quick else 18):
            triples = tuple(s for s in range(16) if A.popcount(s) == 3)
            for comp, gap_name in (("superadditive_cached", "exploitability"), ("superadditive", "l1_norm"), ("sam_apx_1", "linf_norm")):
                us.append(("env", 4, f"shift#{i}", A.shifted(g, A.ADD4), comp, gap_name, triples if quick else ()))
    return us


def cost(u) -> float:
    if u[0] == "poke":
        return 300 if u[1] == 4 else 5
    if u[0] == "wc6":
        return 4000
    if u[0] == "env":
        if u[1] == 5:
            return 5000
        return (2000 if not (len(u) > 6 and u[6]) else 100) if u[1] == 4 else 1
    w = {"superadditive": 3, "superadditive_cached": 1.5, "sam_apx_1": 3, "sam_apx_10": 10, "sam_apx_100": 5, "sam_apx_1000": 50}
    return (1 if u[1] == 3 else 1000 if u[1] == 4 else 300 * (u[1] - 4)) * sum(w[c] for c in u[4])


def run(run: Run) -> None:
    us = units(run)
    run.rule = ("all six registered computers; hidden games of ANY class (A3-ANY: all 3-player games over {-1,0,1}; A3-SA; A4-SA); per game and "
                "computer: canonical table of a fresh object at every K, Euler walk over every reveal/un-reveal edge on one long-lived object "
                "(table must equal the canonical one bit for bit after every compute), BFS over dirty runs of <= d operations from "
                "{reveal, unreveal, bulk reset, set, unset} closed by compute, compute twice == once; env level: BFS to closure over step / unstep of ANY revealed action / reset; "
                "every observable equals that of a fresh env with the same revealed set. non-trivial = distinct clean tables / undo pairs")
    run.bounds = {"n": [3, 4, 5, 6] if run.quick else [3, 4, 5, 6, 7], "dirty_run": {"quick": "1 (2 on 1/8 of the games)", "thorough": "2 (3 on 1/16)"}[run.tier],
                  "games": "1/3 of A3-ANY and A3-SA per seed (quick) / all (thorough)", "units": len(us)}
    run.assumptions = ["sam_apx_1000 is explored at n=3 on games over {0,1,2} without dirty runs (48 ms per compute)",
                       "snapshot/restore uses the public copy(); the Euler walk uses no restore at all"]
    us.sort(key=lambda u: -cost(u))
    run.add(fanout(dispatch, us, chunk=2))


def replay(doc: dict):
    if doc.get("engine") == "poke":
        st = poke_unit(("poke", doc["n"], tuple(doc["values"]), doc["computer"], doc["gap"]))
        msgs = [v["message"] for v in st.violations]
        return bool(msgs), "; ".join(msgs[:2]) if msgs else "step;unstep restores everything also after a value was set through the game object"
    if doc.get("engine") == "env":
        from ..envmodel import replay_env
        return replay_env(doc)
    return replay_lattice(doc, lambda d: Checker())
