"""C13 — built-in solvers pick valid actions by their rule and leave the env untouched (DESIGN §6 C13)."""
from __future__ import annotations

import types

import numpy as np

from .. import alphabets as A
from .. import envs, gaps, gens
from ..core import Run, Stats, fanout
from ..envmodel import EnvCfg, Reference, deep_digest, SKIP_ATTRS
from ..lattice import read, run_history

SA = ("superadditive", "superadditive_cached")


def solvers(seed: int):
    from incomplete_cooperative.solvers import SOLVERS
    inst = types.SimpleNamespace(seed=seed)
    return {name: cls(inst) for name, cls in SOLVERS.items()}


def whole_env(env):
    d = {k: v for k, v in vars(env).items() if k not in SKIP_ATTRS}
    return repr(deep_digest(d)), envs.observe(env)


def reward_table(cfg: EnvCfg, v, R: frozenset, ftol: float):
    """R[a] = -gap of freshly recomputed bounds after additionally revealing a (reference, independent of the env)."""
    out = {}
    for a in range(len(cfg.ex)):
        if a in R:
            continue
        K = cfg.base | A.kmask(cfg.ex[b] for b in R | {a})
        t = read(run_history(cfg.n, cfg.comp, v, [("reset", K), ("compute",)]))
        lo, up = t.lo.tolist(), t.up.tolist()
        exact = ftol == 0.0
        g = gaps.oracle(cfg.gap_name, lo, up, cfg.n, exact)
        out[a] = (-g, gaps.tol_for(cfg.gap_name, lo, up, cfg.n, exact) + 1e-12 * abs(g) + ftol * (1 << cfg.n))
    return out


def check_state(st: Stats, cfg: EnvCfg, env, v, R: frozenset, sol: dict, hist, ftol: float) -> None:
    valid = [a for a in range(len(cfg.ex)) if a not in R]
    if not valid:
        return
    table = reward_table(cfg, v, R, ftol)
    exact_ties = ftol == 0.0 and cfg.gap_name in ("l1_norm", "linf_norm")
    sizes = {a: A.popcount(cfg.ex[a]) for a in valid}
    for name, s in sol.items():
        before = whole_env(env)
        try:
            act = s.next_step(env)
        except Exception as e:  # noqa: BLE001
            st.violation(f"[solver {name} {cfg.tag} n={cfg.n} {cfg.comp} {cfg.gap_name}] next_step raised {type(e).__name__}: {e} at revealed {sorted(R)}",
                         **cfg.doc(hist, solver=name))
            continue
        st.transitions += 1
        st.evals += 1
        after = whole_env(env)
        if before != after:
            fields = [f for f in before[1]._fields if getattr(before[1], f) != getattr(after[1], f)] or ["(internal attributes)"]
            st.violation(f"[solver {name} {cfg.tag} n={cfg.n} {cfg.comp} {cfg.gap_name}] next_step changed the environment ({fields}) at revealed {sorted(R)}",
                         **cfg.doc(hist, solver=name))
            continue
        try:
            act = int(act)
        except Exception:  # noqa: BLE001
            st.violation(f"[solver {name}] returned a non-integer action {act!r}", **cfg.doc(hist, solver=name))
            continue
        if act not in valid:
            st.violation(f"[solver {name} {cfg.tag} n={cfg.n}] returned action {act}, which is not currently valid (valid: {valid})", **cfg.doc(hist, solver=name))
            continue
        msg = None
        if name in ("greedy", "greedy_worst"):
            sign = 1 if name == "greedy" else -1
            best = max(sign * table[a][0] for a in valid)
            val, tol = table[act]
            if sign * val < best - tol:
                msg = (f"picked action {act} with immediate reward {val}, but action "
                       f"{max(valid, key=lambda a: sign * table[a][0])} has reward {sign * best} ({'max' if sign > 0 else 'min'} required); rewards {{a: r}} = "
                       f"{ {a: table[a][0] for a in valid} }")
            elif exact_ties:
                first = min(a for a in valid if table[a][0] == sign * best)
                if act != first:
                    msg = f"tie not broken to the lowest index: picked {act}, lowest optimal index is {first}; rewards = { {a: table[a][0] for a in valid} }"
            if len({table[a][0] for a in valid}) > 1:
                st.nontrivial += 1
        elif name == "largest":
            mx = max(sizes.values())
            first = min(a for a in valid if sizes[a] == mx)
            if act != first:
                msg = (f"picked action {act} (coalition {cfg.ex[act]}, size {sizes[act]}); the lowest-index largest unknown coalition is action {first} "
                       f"(coalition {cfg.ex[first]}, size {mx})")
            if len(set(sizes.values())) > 1:
                st.nontrivial += 1
        if msg:
            st.violation(f"[solver {name} {cfg.tag} n={cfg.n} {cfg.comp} {cfg.gap_name}] at revealed {sorted(R)}: {msg}", **cfg.doc(hist, solver=name))


def unit(u) -> Stats:
    n, vs, comp, gap_name, tag, known_extra, seed = u[:7]
    budget = u[7] if len(u) > 7 else None
    ftol = 0.0
    games = []
    for v in (vs if isinstance(vs, list) else [vs]):
        if isinstance(v, tuple) and v and v[0] == "GEN":
            v = gens.draw(v[1], v[2], v[3])
            ftol = max(ftol, gens.float_tol(v, n))
        games.append(tuple(v))
    st = Stats()
    cfg = EnvCfg(n, games, comp, gap_name, budget, tag, ftol, known_extra)
    env, script = cfg.make()
    sol = solvers(seed)          # ONE set of solver objects for all episodes (as evaluate() with one process uses them)
    for episode in range(len(games)):
        if episode:
            env.reset()
            for s_ in sol.values():
                s_.after_reset(env)
        v = games[(script.calls - 1) % len(games)]
        walk(st, cfg, env, v, sol, ftol, episode)
        if st.nviol >= 3:
            break
    st.traces += 1
    if n == 3 and gap_name == "l1_norm" and comp == SA[0] and tag.startswith("exact"):
        st.sample({"n": n, "hidden_games": [list(g) for g in games], "computer": comp, "gap": gap_name, "solvers": list(sol)})
    return st


def walk(st: Stats, cfg: EnvCfg, env, v, sol, ftol: float, episode: int) -> None:
    """Walk the long-lived env through the whole lattice (step up / unstep down), query every solver at every node."""
    m = len(cfg.ex)
    hist: list = [("reset",)] * episode
    visited = {frozenset()}
    R: frozenset = frozenset()
    check_state(st, cfg, env, v, R, sol, list(hist), ftol)
    st.states += 1
    stack: list = []
    idx = 0
    while st.nviol < 3:
        if idx < m:
            a = idx
            idx += 1
            if a in R or (R | {a}) in visited:
                continue
            env.step(a)
            hist.append(("step", a))
            R = R | {a}
            visited.add(R)
            st.states += 1
            check_state(st, cfg, env, v, R, sol, list(hist), ftol)
            stack.append((a, idx))
            idx = 0
        else:
            if not stack:
                break
            a, idx = stack.pop()
            env.unstep(a)
            hist.append(("unstep", a))
            R = R - {a}


def non_symmetric(g) -> bool:
    return len(set(g[s] for s in range(len(g)) if A.popcount(s) == 2)) > 1


def run(run: Run) -> None:
    gaps.registry()
    from incomplete_cooperative.solvers import SOLVERS  # noqa: F401  (import torch once in the parent)
    seed, quick = run.seed, run.quick
    us = []
    g3 = [g for g in A.a3_sa() if non_symmetric(g)]
    pick3 = [g3[(101 * (seed + 1) + 37 * k) % len(g3)] for k in range(6 if quick else 24)]
    for k, g in enumerate(pick3):
        gv = A.shifted(g, A.ADD3) if k % 2 else g
        other = A.shifted(pick3[(k + 1) % len(pick3)], A.ADD3) if not k % 2 else pick3[(k + 2) % len(pick3)]
        for comp in SA:
            for gap_name in (("exploitability", "l1_norm") if quick else gaps.NAMES):
                us.append((3, [gv, other, A.scaled(gv, 0.25)], comp, gap_name, f"exact3#{k}", (), seed))
    reps = [g for g in A.a4_sa_reps(seed) if non_symmetric(g)]
    pick4 = [reps[(17 * (seed + 1) + 29 * k) % len(reps)] for k in range(4 if quick else 12)]
    triples = tuple(s for s in range(16) if A.popcount(s) == 3)
    for k, g in enumerate(pick4):
        gv = A.shifted(g, A.ADD4) if k % 2 else g
        if quick:
            other = A.shifted(pick4[(k + 1) % len(pick4)], A.ADD4)
            us.append((4, [gv, other] if k else gv, SA[k % 2], ("l1_norm", "exploitability")[k % 2], f"exact4#{k}", triples if k else (), seed))
        else:
            for comp in SA:
                for gap_name in ("exploitability", "l1_norm"):
                    us.append((4, gv, comp, gap_name, f"exact4#{k}", (), seed))
    for i, name in enumerate(("noisy_factory", "xos", "graph_random", "covg_fn_generator")):
        for s in gens.seed_window(seed, 1 if quick else 4):
            us.append((3, ("GEN", name, 3, s), SA[i % 2], gaps.NAMES[i % 2], f"gen:{name}:{s}", (), seed))
            if not quick:
                us.append((4, ("GEN", name, 4, s), SA[(i + 1) % 2], "exploitability", f"gen4:{name}:{s}", triples, seed))
    sam = A.a3_sam()
    us.append((3, sam[(11 * (seed + 1)) % len(sam)], "sam_apx_1", "l1_norm", "sam3", (), seed))
    # environments with a step budget (done also fires when the budget is used up): the solvers' rules do not change
    for k, b in enumerate((1, 2, 3)):
        us.append((3, [A.shifted(pick3[k], A.ADD3), pick3[(k + 3) % len(pick3)]], SA[k % 2], ("l1_norm", "exploitability", "linf_norm")[k], f"exact3-budget{b}",
                   (), seed, b))
    us.append((4, A.shifted(pick4[0], A.ADD4), SA[1], "l1_norm", "exact4-budget3", triples, seed, 3))
    big3 = A.shifted(pick3[0], tuple(A.BIG * x for x in (1, -1, 2)))
    us.append((3, [big3, A.scaled(pick3[1], A.TINY)], SA[0], "l1_norm", "exact3-scales", (), seed))
    nonsa = [g for g in A.a3_any() if not A.is_superadditive(g)]
    us.append((3, [nonsa[(131 * (seed + 1)) % len(nonsa)], nonsa[(977 * (seed + 3)) % len(nonsa)]], SA[1], "linf_norm", "exact3-nonsa", (), seed))
    # hidden games outside the class the computer assumes: a reveal can RAISE the gap there (the rules of the solvers do not care)
    any4 = [g for g in A.a4_any_sample() if not A.is_superadditive(g)]
    for k in range(2 if quick else 8):
        us.append((4, any4[(53 * (seed + 1) + 101 * k) % len(any4)], SA[k % 2], ("exploitability", "l1_norm")[k % 2], f"exact4-nonsa#{k}", (), seed))
    for k, name in enumerate(("noisy_factory", "graph_random") if quick else ("noisy_factory", "graph_random", "factory_cheerleader_next", "xos")):
        if name in gens.names():
            us.append((4, ("GEN", name, 4, gens.seed_window(seed, 1)[0]), "sam_apx_1", "exploitability", f"gen4-sam-computer:{name}", (), seed))
    g5 = A.shifted(tuple(A.popcount(s) ** 2 + (s % 3) for s in range(32)), (1, -1, 2, 0, 3))
    keep5 = (3, 12, 7, 25, 30, 15)            # six explorable coalitions of mixed sizes -> 64 env states
    us.append((5, [g5, A.scaled(g5, 0.5)], SA[1], "l1_norm", "exact5-six-explorable", tuple(s for s in A.explorable_ids(5) if s not in keep5), seed))
    g6 = dict(A.larger_n_samples(6))["path-shift"]
    keep6 = (3, 5, 56, 62, 21)
    us.append((6, g6, SA[1], "exploitability", "exact6-five-explorable", tuple(s for s in A.explorable_ids(6) if s not in keep6), seed))
    if not quick:
        us.append((5, A.shifted(tuple(A.popcount(s) ** 2 + (s % 3) for s in range(32)), (1, -1, 2, 0, 3)), SA[1], "l1_norm", "exact5",
                   tuple(s for s in range(32) if A.popcount(s) in (2, 4)), seed))
    run.rule = ("every state of the real environment's knowledge lattice (n=3: all 8; n=4: all 1024 or the 64 with triples known from the start), "
                "reached by walking ONE long-lived env with step/unstep; at every state each registered solver {greedy, greedy_worst, largest, random} "
                "is queried: action valid, rule satisfied against an independent reward table (fresh bounds + first-principles gap), ties to the lowest "
                "index where the rewards are exactly comparable (l1 / l-infinity on exact games), whole env (every attribute) unchanged. "
                "non-trivial = (state, solver) pairs where the candidates differ in reward / size")
    run.bounds = {"n": [3, 4] if quick else [3, 4, 5], "configurations": len(us), "expected_greedy": "see C11/C13 expected-greedy section (DetPool)"}
    run.assumptions = ["tie-breaking inside the float tolerance of exploitability / l2 is not constrained",
                       "hidden games are chosen so that immediate rewards are NOT all equal (non-symmetric pair values)"]
    run.add(fanout(unit, sorted(us, key=lambda u: -(2 ** (2 ** u[0] - u[0] - 2 - len(u[5])))), chunk=1))
    from .c13_expected import run_expected
    run_expected(run)


def replay(doc: dict):
    if doc.get("engine") == "expected-greedy":
        from .c13_expected import replay_expected
        return replay_expected(doc)
    cfg = EnvCfg(doc["n"], doc["games"], doc["computer"], doc["gap"], doc.get("budget"), doc.get("tag", ""), doc.get("float_tol", 0.0),
                 tuple(doc.get("known_extra", ())))
    env, script = cfg.make()
    R = frozenset()
    st = Stats()
    sol = solvers(doc.get("seed", 0))
    if doc.get("solver"):
        sol = {doc["solver"]: sol[doc["solver"]]}
    # a solver that carries state across episodes only misbehaves after it has played earlier episodes: play them
    for h in [tuple(h) for h in doc["history"]]:
        if h[0] == "reset":
            scratch = Stats()
            walk(scratch, cfg, env, cfg.games[(script.calls - 1) % len(cfg.games)], sol, cfg.float_tol, 0)
            env.reset()
            R = frozenset()
        else:
            getattr(env, h[0])(h[1])
            R = R | {h[1]} if h[0] == "step" else R - {h[1]}
    check_state(st, cfg, env, cfg.games[(script.calls - 1) % len(cfg.games)], R, sol, [tuple(h) for h in doc["history"]], cfg.float_tol)
    msgs = [v["message"] for v in st.violations]
    return bool(msgs), "; ".join(msgs) if msgs else f"solver(s) {list(sol)} behave as specified at revealed set {sorted(R)}"
