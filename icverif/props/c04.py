"""C04 — approximate superadditive-monotone bounds are sound, ordered, self-consistent (DESIGN §6 C04)."""
from __future__ import annotations

from functools import lru_cache

import numpy as np

from .. import alphabets as A
from .. import gens
from ..core import Run, Stats, fanout
from ..lattice import apply_op, new_game, read, run_history

SA_REF = "superadditive_cached"


@lru_cache(maxsize=None)
def nested_pairs(n: int):
    """Index arrays (S, T) of all pairs with S a proper non-empty subset of T."""
    ss, ts = [], []
    for t in range(1, 1 << n):
        for s in A.proper_nonempty_subsets(t):
            ss.append(s)
            ts.append(t)
    return np.array(ss), np.array(ts)


def check_state(n: int, v, va: np.ndarray, K: int, tabs: dict, sa, tol: float, rs) -> str | None:
    """All five clauses of the statement for one (game, K) and the enumerated repetition counts."""
    N = 1 << n
    known = np.array([(K >> s) & 1 for s in range(N)], dtype=bool)
    ss, ts = nested_pairs(n)
    prev = None
    for r in rs:
        t = tabs[r]
        lo, up = t.lo, t.up
        # (1) soundness, known rows exact
        if np.any(lo > va + tol) or np.any(up < va - tol):
            s = int(np.flatnonzero((lo > va + tol) | (up < va - tol))[0])
            return f"r={r}: coalition {s}: true value {v[s]} outside [{float(lo[s])}, {float(up[s])}]"
        if np.any(lo[known] != va[known]) or np.any(up[known] != va[known]):
            return f"r={r}: a known coalition's interval is not exactly its value"
        # (2) never looser than the plain superadditive bounds
        if np.any(lo < sa.lo - tol) or np.any(up > sa.up + tol):
            s = int(np.flatnonzero((lo < sa.lo - tol) | (up > sa.up + tol))[0])
            return (f"r={r}: coalition {s}: SAM interval [{float(lo[s])}, {float(up[s])}] is looser than the superadditive interval "
                    f"[{float(sa.lo[s])}, {float(sa.up[s])}]")
        # (3) raising the repetition count never loosens
        if prev is not None:
            pr, pt = prev
            if np.any(lo < pt.lo - tol) or np.any(up > pt.up + tol):
                s = int(np.flatnonzero((lo < pt.lo - tol) | (up > pt.up + tol))[0])
                return (f"coalition {s}: interval with r={r} [{float(lo[s])}, {float(up[s])}] is looser than with r={pr} "
                        f"[{float(pt.lo[s])}, {float(pt.up[s])}]")
        prev = (r, t)
        # (4) lower bounds monotone non-increasing along inclusion
        bad = lo[ss] < lo[ts] - tol
        if np.any(bad):
            i = int(np.flatnonzero(bad)[0])
            return f"r={r}: lower({int(ss[i])})={float(lo[ss[i]])} < lower({int(ts[i])})={float(lo[ts[i]])} although {int(ss[i])} is a sub-coalition"
        # (5) upper(S) <= v(R) for known R inside S; <= v(T) - lower(T \ S) for known T containing S
        kr = known[ss] & ~known[ts]
        bad = kr & (up[ts] > va[ss] + tol)
        if np.any(bad):
            i = int(np.flatnonzero(bad)[0])
            return f"r={r}: upper({int(ts[i])})={float(up[ts[i]])} exceeds the value {v[int(ss[i])]} of its known sub-coalition {int(ss[i])}"
        kt = known[ts] & ~known[ss]
        bad = kt & (up[ss] > va[ts] - lo[ts ^ ss] + tol)
        if np.any(bad):
            i = int(np.flatnonzero(bad)[0])
            S, T = int(ss[i]), int(ts[i])
            return f"r={r}: upper({S})={float(up[S])} exceeds v({T}) - lower({T ^ S}) = {v[T] - float(lo[T ^ S])} for the known superset {T}"
    return None


def unit(u) -> Stats:
    n, tag, v, rs, tol = u[:5]
    if isinstance(v, tuple) and v and v[0] == "GEN":
        v = gens.draw(v[1], v[2], v[3])
        tol = gens.float_tol(v, n)
    st = Stats()
    va = np.array(v, dtype=np.float64)
    base = A.kmask(A.minimal_ids(n))
    Ks = list(A.knowledge_sets(n)) if n <= 4 else A.few_knowledge(n) if n >= 8 else list(A.layered_knowledge(n, 1))
    if tag.startswith("wc6:"):
        from .. import sam6
        Ks = [sam6.base_knowledge()] + [sam6.base_knowledge() | 1 << c for c in sam6.probe_coalitions()[:2]]
    if tag.startswith("wc7:"):
        from .. import sam6
        Ks = [sam6.base_knowledge7()]
    if tag.startswith("wc7k:"):
        _, a_, b_, _w = tag.split(":")
        Ks = [A.kmask(A.minimal_ids(7)) | 1 << int(a_) | 1 << int(b_)]
    comps = [SA_REF] + [f"sam_apx_{r}" for r in rs]
    for K in Ks:
        tabs = {}
        hist = [("reset", K), ("compute",)]
        for comp in comps:
            g = new_game(n, comp)
            try:
                for op in hist:
                    apply_op(g, v, op)
            except Exception as e:  # noqa: BLE001
                st.violation(f"[{comp} n={n} {tag}] compute raised {type(e).__name__}: {e}", n=n, values=list(v), computer=comp,
                             history=[list(h) for h in hist], rs=list(rs))
                return st
            tabs[comp] = read(g)
            st.states += 1
            st.transitions += 2
            st.traces += 1
        sa = tabs[SA_REF]
        msg = check_state(n, v, va, K, {r: tabs[f"sam_apx_{r}"] for r in rs}, sa, tol, rs)
        st.evals += len(rs)
        if msg:
            st.violation(f"[sam n={n} {tag}] knowledge {A.kmask_ids(K)}: {msg}", n=n, values=list(v), history=[list(h) for h in hist],
                         rs=list(rs), K=A.kmask_ids(K), tag=tag)
            if st.nviol >= 3:
                return st
        last = tabs[f"sam_apx_{rs[-1]}"]
        if np.any(last.lo != last.up):
            st.nontrivial += 1
        if np.any(last.lo != sa.lo) or np.any(last.up != sa.up):
            st.count("states_where_sam_is_strictly_tighter_than_sa")
        if len(rs) >= 2 and tabs[f"sam_apx_{rs[0]}"].key != tabs[f"sam_apx_{rs[1]}"].key:
            st.count("states_where_a_repetition_changes_a_bound")
        st.outcomes.add(hash(last.key))
    # one long-lived object re-filled with this game after it held ANOTHER game of the class (set_value on the known coalitions,
    # no bulk reset in between): the bounds must still be those of the current knowledge, hence sound for the current game
    other = u[5] if len(u) > 5 else None
    if other is not None and st.nviol == 0:
        ids_all = list(range(1 << n))
        rs2 = tuple(r for r in rs if r <= 10)[:4] or (rs[0],)
        for K in (Ks if n == 3 else list(A.layered_knowledge(n, 1))[:24]):
            tabs = {}
            ids = [s for s in ids_all if K >> s & 1]
            hist = [("reset-with-other-game", K), ("compute",)] + [("set_value", s) for s in ids] + [("compute",)]
            for comp in [SA_REF] + [f"sam_apx_{r}" for r in rs2]:
                g = new_game(n, comp)
                try:
                    apply_op(g, other, ("reset", K))
                    g.compute_bounds()
                    for s in ids:
                        apply_op(g, v, ("set", s))
                    g.compute_bounds()
                except Exception as e:  # noqa: BLE001
                    st.violation(f"[{comp} n={n} {tag}] refill history raised {type(e).__name__}: {e}", n=n, values=list(v), other=list(other),
                                 history=[list(h) for h in hist], rs=list(rs2), refill=True)
                    return st
                tabs[comp] = read(g)
                st.transitions += 3 + len(ids)
                st.states += 1
            msg = check_state(n, v, va, K, {r: tabs[f"sam_apx_{r}"] for r in rs2}, tabs[SA_REF], tol, rs2)
            st.evals += len(rs2)
            if msg:
                st.violation(f"[sam n={n} {tag}] object previously filled with another game of the class, then re-filled (set_value) with this one at "
                             f"knowledge {A.kmask_ids(K)}: {msg}", n=n, values=list(v), other=list(other), history=[list(h) for h in hist], rs=list(rs2),
                             K=A.kmask_ids(K), tag=tag, refill=True)
                if st.nviol >= 3:
                    return st
    if n == 3 and tag == "plain#77":
        st.sample({"n": n, "values": list(v), "repetitions": list(rs), "knowledge_sets": len(Ks)})
    return st


R3 = tuple(range(11)) + (100,)
R4_FULL = (0, 1, 2, 3, 10)


def units(run: Run):
    seed, quick = run.seed, run.quick
    us = []
    sam3 = A.a3_sam()
    for i, g in enumerate(sam3):
        rs = R3 + ((1000,) if (not quick or i % 4 == seed % 4) else ())
        us.append((3, f"plain#{i}", g, rs, 0.0, sam3[(i * 7 + 3 + seed) % len(sam3)]))
        us.append((3, f"shift#{i}", A.shifted(g, (-1, -2, 0)), R3, 0.0, sam3[(i * 5 + 1 + seed) % len(sam3)]))
        us.append((3, f"dyadic#{i}", A.scaled(g, 0.25), R3, 0.0))
        us.append((3, f"bigshift#{i}", A.shifted(g, (-A.BIG, -2 * A.BIG, 0.0)), (0, 1, 2, 10), 0.0))
        us.append((3, f"tiny#{i}", A.scaled(g, A.TINY), (0, 1, 2, 10), 0.0))
    sam4 = A.a4_sam() if quick else A.a4_sam((-3, -2, -1, 0))
    for i, g in enumerate(sam4):
        if not quick and i % 3 != seed % 3:
            continue
        gv = A.shifted(g, (-1, -2, 0, -1)) if i % 2 else g
        if quick:
            rs = R4_FULL if i % 3 == seed % 3 else (0, 1)
        else:
            rs = tuple(range(11)) if i % 9 == seed % 9 else R4_FULL
        us.append((4, f"sam#{i}", gv, rs, 0.0, sam4[(i * 11 + 5 + seed) % len(sam4)] if i % 4 == seed % 4 else None))
    two_valued = [g for g in A.a4_sam() if set(g) <= {0, -1}]
    for i, g in enumerate(two_valued):
        if quick and i % 8 != seed % 8:
            continue
        us.append((4, f"sam01#{i}", g, (10, 100), 0.0))
    # larger player counts: all K-budget games -min(k,|S|) (exact integers) and their shifts; K within distance 1 of minimal / full + layers
    for n in ((5, 6) if quick else (5, 6, 7)):
        for k in range(1, n):
            g = tuple(float(-min(k, A.popcount(s))) for s in range(1 << n))
            if quick and n == 6 and k not in (1, 3, 5):
                continue
            us.append((n, f"budget{n}-{k}", g if k % 2 else A.shifted(g, tuple([-1, -2, 0, -1, -3, 0, -2][:n])), (0, 1, 2) if n >= 6 else (0, 1, 2, 10), 0.0))
    # WC6: the complete 6-player weighted-coverage family on which repetitions of the SAM approximation actually change bounds
    from .. import sam6
    for tag, gv in sam6.family(dense_only=quick):
        us.append((6, tag, gv, (0, 1, 2) if quick else (0, 1, 2, 3), 0.0))
    for tag, gv in sam6.family7():
        us.append((7, tag, gv, (0, 1, 2), 0.0))
    for tag, gv, _k in sam6.family7_knowledge_variants():
        us.append((7, tag, gv, (0, 1, 2), 0.0))
    for n in ((9,) if quick else (8, 9, 10)):
        us.append((n, f"budget{n}-3", A.budget_game(n, 3), (0, 1), 0.0))
        us.append((n, f"budget{n}-1-shift", A.shifted(A.budget_game(n, 1), tuple([-1, -2, 0, -1, -3, 0, -2, -1, 0, -2][:n])), (1,), 0.0))
    width = 2 if quick else 8
    for name in gens.SAM_FAMILIES:
        for n in ((3, 4) if quick else (3, 4, 5)):
            for s in gens.seed_window(seed, width):
                if n >= 4 and s != gens.seed_window(seed, width)[0]:
                    continue
                us.append((n, f"gen:{name}:{s}", ("GEN", name, n, s), (0, 1, 2, 10) if n < 5 else (0, 1), None))
    return us


def cost(u) -> float:
    n, rs = u[0], u[3]
    if str(u[1]).startswith(("wc6:", "wc7:", "wc7k:")):
        return 8
    return (1 if n == 3 else 130 if n == 4 else 100 if n < 8 else 3000) * (1 + sum(0.4 + 0.08 * r for r in rs))


def run(run: Run) -> None:
    us = units(run)
    run.rule = ("all superadditive & monotone-non-increasing games of a complete integer lattice (A3-SAM: 156 games x {plain, shift, dyadic}; "
                "A4-SAM: 282 / 3272 games) x EVERY knowledge set x repetition counts 0..10,100,(1000) (n=3) / 0,1,2,3,10 (n=4): soundness against "
                "the hidden game, never looser than superadditive_cached, monotone in the repetition count, lower bounds monotone along all nested "
                "pairs, upper bounds capped by known sub-coalition values and by v(T)-lower(T\\S) of known supersets. "
                "non-trivial = distinct (game, K) with a non-degenerate interval")
    run.bounds = {"n": [3, 4, 5, 6] if run.quick else [3, 4, 5, 6, 7], "repetitions_n3": list(R3) + [1000], "repetitions_n4": list(R4_FULL),
                  "units": len(us)}
    run.rule += ("; plus, for every 3-player game and a quarter of the 4-player games, one long-lived object first filled with ANOTHER game of the class "
                 "and then re-filled through set_value (no bulk reset) at every K: all clauses again")
    run.assumptions = ["quick tier: two thirds of the A4-SAM games are run with r in {0,1} only; r=1000 on a quarter of A3-SAM",
                       "float families: G2 tolerance"]
    us.sort(key=lambda u: -cost(u))
    small = [u for u in us if str(u[1]).startswith(("wc6:", "wc7:", "wc7k:"))]
    big = [u for u in us if not str(u[1]).startswith(("wc6:", "wc7:", "wc7k:"))]
    run.add(fanout(unit, big, chunk=1))
    run.add(fanout(unit, small, chunk=24))


def replay(doc: dict):
    n, v = doc["n"], doc["values"]
    hist = [tuple(h) for h in doc["history"]]
    rs = doc.get("rs", [0, 1])
    tol = gens.float_tol(v, n) if str(doc.get("tag", "")).startswith("gen:") else 0.0
    if doc.get("refill"):
        K = A.kmask(doc["K"])
        ids = [s for s in range(1 << n) if K >> s & 1]

        def refill(comp):
            g = new_game(n, comp)
            apply_op(g, doc["other"], ("reset", K))
            g.compute_bounds()
            for s in ids:
                apply_op(g, v, ("set", s))
            g.compute_bounds()
            return read(g)
        try:
            tabs = {r: refill(f"sam_apx_{r}") for r in rs}
            sa = refill(SA_REF)
        except Exception as e:  # noqa: BLE001
            return True, f"replay raised {type(e).__name__}: {e}"
        msg = check_state(n, v, np.array(v, dtype=np.float64), K, tabs, sa, tol, rs)
        return bool(msg), f"refill replay n={n} values={v} other={doc['other']} K={doc['K']}: {msg or 'all five clauses hold'}"
    try:
        tabs = {r: read(run_history(n, f"sam_apx_{r}", v, hist)) for r in rs}
        sa = read(run_history(n, SA_REF, v, hist))
    except Exception as e:  # noqa: BLE001
        return True, f"replay raised {type(e).__name__}: {e}"
    msg = check_state(n, v, np.array(v, dtype=np.float64), sa.k, tabs, sa, tol, rs)
    return bool(msg), f"replay n={n} values={v} history={hist} repetitions={rs}\n{msg or 'all five clauses hold'}"
