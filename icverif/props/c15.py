"""C15 — normalisation maps superadditive games into [0,1] and is invertible (DESIGN §6 C15).

Input enumeration against the exact-rational oracle O7 with the three-zone specification:
  zone A  s* >= 2^-21 * sigma      : result == w*(S)/s* within 64 n 2^-53 sigma/s*  (hence singletons 0, grand 1, range [0,1])
  zone C  |s*| <= 1e-12 * sigma    : every |value| <= 1e-9 * max(1, sigma)          ("identically 0" for an additive game)
  between                           : either outcome accepted, instance counted as trivial
where s* is the exact surplus v(N) - sum v(i) of the float inputs and sigma = |v(N)| + sum |v(i)|.
"""
from __future__ import annotations

from fractions import Fraction

import numpy as np

from .. import alphabets as A
from .. import envs, gens
from .. import oracles as O
from ..core import Run, Stats, fanout

ZA = Fraction(1, 2 ** 21)
ZC = Fraction(1, 10 ** 12)


def judge(n: int, v, got, info, tag: str) -> tuple[str | None, str]:
    """Compare the normalised values `got` with O7. Returns (violation message | None, zone)."""
    s, sigma, w = O.normalise_exact(v, n)
    N = 1 << n
    if sigma == 0:
        zone = "C"
    elif s >= ZA * sigma:
        zone = "A"
    elif abs(s) <= ZC * sigma:
        zone = "C"
    else:
        return None, "between"
    if zone == "A":
        tol = float(64 * n * Fraction(1, 2 ** 53) * sigma / s) + 1e-15
        for c in range(N):
            want = float(w[c] / s)
            if abs(got[c] - want) > tol * max(1.0, abs(want)):
                return (f"coalition {c}: normalised value {got[c]} but (v(S) - sum of its singletons)/(v(N) - sum of all singletons) = {want}"
                        f" (tolerance {tol:.3g})"), zone
        for i in range(n):
            if abs(got[1 << i]) > tol:
                return f"singleton {i} normalises to {got[1 << i]}, not 0", zone
        if abs(got[N - 1] - 1) > tol:
            return f"grand coalition normalises to {got[N - 1]}, not 1", zone
        if min(got) < -tol or max(got) > 1 + tol:
            return f"normalised values leave [0,1]: min {min(got)}, max {max(got)}", zone
        for u in range(1, N):
            for a, b in A.proper_splits(u):
                if got[a] + got[b] > got[u] + 3 * tol:
                    return f"normalised game is not superadditive: {got[a]} + {got[b]} > {got[u]} for {a}, {b}, {u}", zone
    else:
        bound = 1e-9 * max(1.0, float(sigma))
        if max(abs(x) for x in got) > bound:
            return (f"the game is additive up to rounding (exact surplus {float(s):.3g}, magnitude {float(sigma):.3g}) but normalises to values "
                    f"up to {max(abs(x) for x in got)} instead of identically 0: {list(got)}"), zone
    if info is not None:
        g_info, sing = info
        if any(float(sing[i]) != v[1 << i] for i in range(n)):
            return f"norm info singletons {list(sing)} differ from the singleton values", zone
        if abs(float(g_info) - float(s)) > 64 * n * 2.0 ** -53 * float(sigma) + 1e-300:
            return f"norm info surplus {float(g_info)} differs from v(N) - sum v(i) = {float(s)}", zone
    return None, zone


def check_table(st: Stats, n: int, v, tag: str) -> None:
    from incomplete_cooperative.normalize import denormalize_game, normalize_game
    doc = {"n": n, "values": list(v), "tag": tag}
    g = envs.full_game(v)
    try:
        info = normalize_game(g)
        got = [float(x) for x in g.get_values()]
    except Exception as e:  # noqa: BLE001
        st.violation(f"[normalize n={n} {tag}] raised {type(e).__name__}: {e}", **doc)
        return
    st.states += 1
    st.transitions += 1
    st.evals += 1
    msg, zone = judge(n, v, got, info, tag)
    st.count(f"zone_{zone}")
    if msg:
        st.violation(f"[normalize n={n} {tag}] {msg}; input={list(v)}", **doc)
        return
    if zone == "between":
        return
    st.nontrivial += 1
    st.outcomes.add(hash(tuple(round(x, 9) for x in got)))
    # invertibility
    try:
        denormalize_game(g, info)
        back = [float(x) for x in g.get_values()]
    except Exception as e:  # noqa: BLE001
        st.violation(f"[denormalize n={n} {tag}] raised {type(e).__name__}: {e}", **doc)
        return
    st.transitions += 1
    _, sigma, _ = O.normalise_exact(v, n)
    lim = 1e-9 * max(float(sigma), 1e-300) + 1e-12 * max(abs(x) for x in v)
    if max(abs(a - b) for a, b in zip(back, v)) > lim:
        st.violation(f"[denormalize n={n} {tag}] de-normalising does not restore the game: {back} vs {list(v)}", **doc)


def check_graph(st: Stats, n: int, name: str, seed: int, scale: float = 1.0, dtype: str | None = None) -> None:
    """A graph game and its tabulated form normalise to the same values; graph de-normalisation restores the values."""
    from incomplete_cooperative.graph_game import GraphCooperativeGame
    from incomplete_cooperative.normalize import denormalize_game, normalize_game
    doc = {"n": n, "generator": name, "gen_seed": seed, "tag": f"graph:{name}:{seed}:x{scale}:{dtype}", "scale": scale, "dtype": dtype}
    try:
        g = gens.draw_game(name, n, seed)
        if not isinstance(g, GraphCooperativeGame):
            return
        if scale != 1.0:
            g = GraphCooperativeGame(np.asarray(g._graph_matrix) * scale)
        if dtype is not None:      # the same weights held in another float representation (byte order / width); float32 rounds them first
            m = np.asarray(g._graph_matrix, dtype=np.float64)
            if dtype == "float32":
                m = m.astype(np.float32).astype(np.float64)
            g = GraphCooperativeGame(m.astype(np.dtype(dtype)))
        v = tuple(float(x) for x in g.get_values())
        doc["values"] = list(v)
        doc["matrix"] = np.asarray(g._graph_matrix).tolist() if hasattr(g, "_graph_matrix") else None
        info = normalize_game(g)
        got = [float(x) for x in g.get_values()]
    except Exception as e:  # noqa: BLE001
        st.violation(f"[normalize graph {name} n={n} seed={seed}] raised {type(e).__name__}: {e}", **doc)
        return
    st.states += 1
    st.transitions += 1
    st.evals += 1
    msg, zone = judge(n, v, got, info, doc["tag"])
    st.count(f"zone_{zone}")
    if msg:
        st.violation(f"[normalize graph {name} n={n} seed={seed}] {msg}", **doc)
        return
    t = envs.full_game(v)
    normalize_game(t)
    tv = [float(x) for x in t.get_values()]
    s, sigma, _ = O.normalise_exact(v, n)
    if zone == "A":
        tol = float(64 * n * Fraction(1, 2 ** 53) * sigma / s) * 4 + 1e-15
        if max(abs(a - b) for a, b in zip(got, tv)) > tol:
            st.violation(f"[normalize graph {name} n={n} seed={seed}] graph form and tabulated form normalise differently: {got} vs {tv}", **doc)
            return
        st.nontrivial += 1
    try:
        denormalize_game(g, info)
        back = [float(x) for x in g.get_values()]
    except Exception as e:  # noqa: BLE001
        st.violation(f"[denormalize graph {name} n={n} seed={seed}] raised {type(e).__name__}: {e}", **doc)
        return
    if max(abs(a - b) for a, b in zip(back, v)) > 1e-9 * max(float(sigma), 1e-300):
        st.violation(f"[denormalize graph {name} n={n} seed={seed}] does not restore the values: {back} vs {list(v)}", **doc)


def unit(u) -> Stats:
    st = Stats()
    kind = u[0]
    if kind == "games":
        _, n, games = u
        for tag, v in games:
            check_table(st, n, v, tag)
            if st.nviol >= 3:
                break
    elif kind == "gen":
        _, name, n, seeds = u
        for s in seeds:
            try:
                v = gens.draw(name, n, s)
            except Exception as e:  # noqa: BLE001  (C10's business; do not double-report, but do not hide)
                st.note(f"generator {name} raised {type(e).__name__} (owned by C10)")
                continue
            check_table(st, n, v, f"gen:{name}:{s}")
            check_graph(st, n, name, s)
            check_graph(st, n, name, s, 2.0 ** -40)
            for dt in (">f8", "longdouble"):      # float32 input is normalised in float32 precision: no tight oracle, not used
                check_graph(st, n, name, s, 1.0, dt)
            if st.nviol >= 3:
                break
        if name == "xos2" and n == 3:
            st.sample({"generator": name, "n": n, "seeds": list(seeds), "example_values": gens.draw(name, n, seeds[0])})
    return st


def nearly_additive(n: int):
    """additive integer game + eps * superadditive zero-normalised integer game, eps a power of two (exactly representable)."""
    adds = ((1, -1, 2, 0, 3)[:n], (3, 5, 7, 2, 4)[:n])
    base = A.a3_sa((0, 1, 2)) if n == 3 else A.a4_sa_reps(0)[::9]
    for ai, a in enumerate(adds):
        for gi, w in enumerate(base):
            if w[-1] <= 0 or any(w[1 << i] for i in range(n)):
                continue
            for e in (10, 16, 24, 30):
                eps = 2.0 ** -e
                v = tuple(sum(a[i] for i in range(n) if s >> i & 1) + eps * w[s] for s in range(1 << n))
                yield (f"near-additive a{ai} w{gi} eps=2^-{e}", v)


def run(run: Run) -> None:
    quick, seed = run.quick, run.seed
    us: list = []
    g3 = [(f"{tag}#{i}", gv) for i, g in enumerate(A.a3_sa()) for tag, gv in A.with_shifts([g], 3)]
    # small units: the surplus is tiny in ABSOLUTE terms but of order 1 relative to the game (zone A: must normalise like any other game)
    g3 += [(f"tiny40#{i}", A.scaled(g, 2.0 ** -40)) for i, g in enumerate(A.a3_sa())]
    g3 += [(f"tiny30-shift#{i}", A.scaled(A.shifted(g, A.ADD3), A.TINY)) for i, g in enumerate(A.a3_sa()) if i % 2 == seed % 2]
    for i in range(0, len(g3), 256):
        us.append(("games", 3, g3[i:i + 256]))
    reps = A.a4_sa_reps(seed) if quick else A.a4_sa_full()
    g4 = [(f"{tag}#{i}", gv) for i, g in enumerate(reps) for tag, gv in A.with_shifts([g], 4)]
    g4 += [(f"tiny40#{i}", A.scaled(g, 2.0 ** -40)) for i, g in enumerate(reps)]
    for i in range(0, len(g4), 256):
        us.append(("games", 4, g4[i:i + 256]))
    # additive members and nearly additive games
    addg = [(f"additive{a}", tuple(float(sum(a[i] for i in range(n) if s >> i & 1)) for s in range(1 << n)))
            for n in (3, 4) for a in ((1, -1, 2, 0), (0, 0, 0, 0), (0.1, 0.2, 0.3, 0.7), (1e-3, 1e5, 3.3, -7.7),
                      # singleton weights that cancel: v(N) itself is only a rounding residue
                      (0.1, 0.2, -0.3, 0.0), (0.1, 0.2, 0.3, -0.6), (1.1, -2.2, 1.1, 0.0), (1e8 + 0.1, -1e8, -0.1, 0.0), (0.7, -0.1, -0.6, 1e-9))]
    us.append(("games", 3, [(t, v) for t, v in addg if len(v) == 8]))
    us.append(("games", 4, [(t, v) for t, v in addg if len(v) == 16]))
    na3 = list(nearly_additive(3))
    for i in range(0, len(na3), 128):
        us.append(("games", 3, na3[i:i + 128]))
    us.append(("games", 4, list(nearly_additive(4))))
    width = 4 if quick else 48
    for name in gens.names():
        for n in ((3, 4, 5, 6) if not quick else (3, 4, 5, 6)):
            if n == 6 and name == "oxs":
                continue
            w = width if n < 5 else (1 if quick else (width if n == 5 else 8))
            us.append(("gen", name, n, list(gens.seed_window(seed, w))))
    run.rule = ("every game of A3-SA / A4-SA with additive shifts and dyadic copies, additive games (integer and float), nearly additive games "
                "(additive + 2^-k * superadditive), every registered generator x seed window (graph games in both representations): normalised values "
                "compared with exact-rational normalisation under the three-zone specification; de-normalisation restores the input. "
                "non-trivial = instances in zone A or C (instances between the zones are counted as trivial)")
    run.bounds = {"n": [3, 4, 5, 6], "seed_window_width": width}
    run.assumptions = ["between 1e-12 and 2^-21 relative surplus either outcome is accepted (a correct implementation may put its additive threshold anywhere there)"]
    run.add(fanout(unit, us, chunk=1))


def replay(doc: dict):
    st = Stats()
    if doc.get("generator"):
        check_graph(st, doc["n"], doc["generator"], doc["gen_seed"], doc.get("scale", 1.0), doc.get("dtype"))
    else:
        check_table(st, doc["n"], tuple(doc["values"]), doc.get("tag", "replay"))
    msgs = [v["message"] for v in st.violations]
    return bool(msgs), "; ".join(msgs) if msgs else "normalisation agrees with the exact oracle on this input"
