"""C19 — saved results read back faithfully and are never overwritten (DESIGN §6 C19).

E1 over the results file: a state is the byte content of data.json, a transition one save under a name/result from a small
alphabet; BFS over all save sequences to depth 4 (de-duplicated on the file bytes) against a "first write wins" dict model;
plus the three result-producing commands with the producing function wrapped so that what it returned is known.
"""
from __future__ import annotations

import json
import math
import os
import shutil
import tempfile
from argparse import Namespace
from pathlib import Path

import numpy as np

from .. import savefx
from ..core import Run, Stats, fanout

NAMES = ("a", "b", "a b/ü")
KINDS = ("nan1x1", "neg2x3", "tensor", "int")


def json_equal(a, b) -> bool:
    """Deep equality where NaN == NaN and ints/floats compare by value."""
    if isinstance(a, float) and isinstance(b, float) and math.isnan(a) and math.isnan(b):
        return True
    if isinstance(a, dict) and isinstance(b, dict):
        return a.keys() == b.keys() and all(json_equal(a[k], b[k]) for k in a)
    if isinstance(a, list) and isinstance(b, list):
        return len(a) == len(b) and all(json_equal(x, y) for x, y in zip(a, b))
    if isinstance(a, bool) or isinstance(b, bool):
        return a is b
    if isinstance(a, (int, float)) and isinstance(b, (int, float)):
        return float(a) == float(b)
    return a == b


def check_file(path: Path, model: dict, outputs: dict) -> str | None:
    """data.json against the model; read-back through Output.from_file / get_outputs_from_file against what was saved."""
    from incomplete_cooperative.run.save import Output, get_outputs_from_file
    if not model:
        return None if not path.exists() else "results file exists although nothing was saved"
    try:
        raw = path.read_text()
        parsed = json.loads(raw)
    except Exception as e:  # noqa: BLE001
        return f"results file cannot be read: {type(e).__name__}: {e}"
    if list(parsed.keys()) != list(model.keys()) and set(parsed.keys()) != set(model.keys()):
        return f"entries in the file: {list(parsed.keys())}, saved so far: {list(model.keys())}"
    for name, want in model.items():
        if not json_equal(parsed[name], want):
            return f"entry {name!r} in the file differs from what was saved first under that name: {str(parsed[name])[:200]} vs {str(want)[:200]}"
    try:
        outs = get_outputs_from_file(path)
    except Exception as e:  # noqa: BLE001
        return f"get_outputs_from_file raised {type(e).__name__}: {e}"
    if set(outs.keys()) != set(model.keys()):
        return f"get_outputs_from_file returns {list(outs.keys())}"
    for name, orig in outputs.items():
        try:
            back = Output.from_file(path, name)
        except Exception as e:  # noqa: BLE001
            return f"Output.from_file({name!r}) raised {type(e).__name__}: {e}"
        for label, o in (("from_file", back), ("get_outputs_from_file", outs[name])):
            if not savefx.same_matrix(o.data, orig.data):
                return f"{label}: gap matrix of {name!r} does not round-trip: {np.asarray(o.data).tolist()} vs {np.asarray(orig.data).tolist()}"
            if not savefx.same_matrix(o.actions, orig.actions):
                return f"{label}: action matrix of {name!r} does not round-trip: {np.asarray(o.actions).tolist()} vs {np.asarray(orig.actions).tolist()}"
            meta = dict(model[name]["metadata"])
            got = dict(vars(o.parsed_args))
            got.pop("func", None)
            if not json_equal(got, meta):
                return f"{label}: metadata of {name!r} reads back as {got}, saved (after one JSON stringification) {meta}"
    return None


def bfs_unit(u) -> Stats:
    _, depth, first_ops = u
    st = Stats()
    base = tempfile.mkdtemp(prefix="icverif-c19-")
    try:
        alphabet = [(nm, k) for nm in NAMES for k in KINDS]
        seen = set()
        counter = 0
        states_at_depth = [(list(first_ops), None)] if first_ops else [([], None)]
        for d in range(len(first_ops), depth + 1):
            nxt = []
            for hist, _ in states_at_depth:
                # rebuild the state by replaying the history with the real save_json (files do not copy themselves)
                counter += 1
                root = os.path.join(base, f"s{counter}")
                os.makedirs(root)
                path = Path(root) / "data.json"
                model: dict = {}
                outputs: dict = {}
                ok = True
                for nm, kind in hist:
                    out = savefx.make_output(kind, nm)
                    pristine_entry = savefx.expected_entry(out)      # BEFORE the save: a saver must not get to edit the expectation
                    pristine_out = savefx.make_output(kind, nm)
                    try:
                        savefx.call_save_json(path, nm, out)
                    except Exception as e:  # noqa: BLE001
                        st.violation(f"[save_json] saving {kind} under {nm!r} after {hist} raised {type(e).__name__}: {e}", history=[list(h) for h in hist])
                        ok = False
                        break
                    st.transitions += 1
                    if nm not in model:
                        model[nm] = pristine_entry
                        outputs[nm] = pristine_out
                if not ok:
                    shutil.rmtree(root, ignore_errors=True)
                    if st.nviol >= 3:
                        return st
                    continue
                content = path.read_bytes() if path.exists() else b""
                msg = check_file(path, model, outputs)
                st.evals += 1
                shutil.rmtree(root, ignore_errors=True)
                if msg:
                    st.violation(f"[save_json] after {hist}: {msg}", history=[list(h) for h in hist])
                    if st.nviol >= 3:
                        return st
                    continue
                if content in seen:
                    continue
                seen.add(content)
                st.states += 1
                if len(model) >= 2:
                    st.nontrivial += 1
                if d < depth:
                    for op in alphabet:
                        nxt.append((hist + [op], None))
            states_at_depth = nxt
        st.traces += len(seen)
        st.outcomes |= {hash(c) for c in seen}
        if not first_ops or first_ops == [("a", "nan1x1")]:
            st.sample({"names": list(NAMES), "outputs": list(KINDS), "depth": depth, "distinct_files": len(seen)})
    finally:
        shutil.rmtree(base, ignore_errors=True)
    return st


def full_save_unit(u) -> Stats:
    """The same through save() with every registered saver (plots included); exceptions of the other savers on a repeated
    name are outside the statement - what matters is data.json."""
    _, seqs = u
    from incomplete_cooperative.run.save import save
    st = Stats()
    base = tempfile.mkdtemp(prefix="icverif-c19s-")
    try:
        for si, seq in enumerate(seqs):
            root = Path(base) / f"m{si}"
            model: dict = {}
            outputs: dict = {}
            for nm, kind in seq:
                out = savefx.make_output(kind, nm)
                pristine_entry = savefx.expected_entry(out)          # BEFORE the save (savers run on the same object)
                pristine_out = savefx.make_output(kind, nm)
                before = (root / "data.json").read_bytes() if (root / "data.json").exists() else None
                try:
                    save(root, nm, out)
                    raised = None
                except Exception as e:  # noqa: BLE001
                    raised = e
                st.transitions += 1
                after = (root / "data.json").read_bytes() if (root / "data.json").exists() else None
                if nm in model:
                    if after != before:
                        st.violation(f"[save] saving again under the existing name {nm!r} changed data.json", history=[list(h) for h in seq], full_save=True)
                else:
                    if after != before:       # the entry was written
                        model[nm] = pristine_entry
                        outputs[nm] = pristine_out
                    elif raised is None:
                        st.violation(f"[save] save() under the new name {nm!r} returned normally but data.json did not change", history=[list(h) for h in seq], full_save=True)
                msg = check_file(root / "data.json", model, outputs)
                st.evals += 1
                if msg:
                    st.violation(f"[save] after {seq}: {msg}", history=[list(h) for h in seq], full_save=True)
                    break
            st.states += 1
            st.nontrivial += 1
    finally:
        shutil.rmtree(base, ignore_errors=True)
    return st


def command_unit(u) -> Stats:
    """solve / greedy / best_states: the entry written equals the matrices the producing function returned."""
    _, cmd, n, generator, limit, reps, seed = u[:7]
    all_savers = bool(u[7]) if len(u) > 7 else False
    import incomplete_cooperative.run.best_states as bs
    import incomplete_cooperative.run.greedy as gr
    import incomplete_cooperative.run.save as sv
    import incomplete_cooperative.run.solve as so
    from incomplete_cooperative.run.model import ModelInstance
    st = Stats()
    base = tempfile.mkdtemp(prefix="icverif-c19c-")
    doc = {"command": cmd, "n": n, "generator": generator, "limit": limit, "reps": reps, "gen_seed": seed}
    recorded: list = []

    def wrap(fn):
        def w(*a, **kw):
            import copy
            r = fn(*a, **kw)
            recorded.append(copy.deepcopy(r))      # a private copy: later in-place edits of the returned arrays must not reach the record
            return r
        return w
    saved_savers = dict(sv.SAVERS)
    try:
        func = {"solve": so.solve_func, "greedy": gr.greedy_func, "best_states": bs.best_states_func}[cmd]
        ns = Namespace(number_of_players=n, game_generator=generator, run_steps_limit=limit, model_dir=Path(base) / "model", unique_name=f"run {cmd}",
                       seed=seed, parallel_environments=1, game_class="superadditive_cached", gap_function=("exploitability", "l1_norm")[seed % 2],
                       solver="greedy", solve_repetitions=reps, sampling_repetitions=reps, eval_repetitions=2, func=func)
        inst = ModelInstance.from_parsed_arguments(ns)
        if not all_savers:
            sv.SAVERS.clear()
            sv.SAVERS["data.json"] = saved_savers["data.json"]
        orig = (so.evaluate, gr.get_greedy_rewards, bs.get_best_exploitability)
        so.evaluate, gr.get_greedy_rewards, bs.get_best_exploitability = wrap(orig[0]), wrap(orig[1]), wrap(orig[2])
        try:
            func(inst, ns)
        except Exception as e:  # noqa: BLE001
            st.violation(f"[command {cmd} n={n} {generator} limit={limit}] raised {type(e).__name__}: {e}", **doc)
            return st
        finally:
            so.evaluate, gr.get_greedy_rewards, bs.get_best_exploitability = orig
        st.transitions += 1
        path = Path(base) / "model" / "data.json"
        try:
            out = sv.Output.from_file(path, f"run {cmd}")
            parsed = json.loads(path.read_text())[f"run {cmd}"]
        except Exception as e:  # noqa: BLE001
            st.violation(f"[command {cmd}] the saved entry cannot be read back: {type(e).__name__}: {e}", **doc)
            return st
        if cmd == "solve":
            exp_data, exp_actions = np.asarray(recorded[0][0]), np.asarray(recorded[0][1])
        elif cmd == "greedy":
            exp_data = np.asarray(recorded[0][0])
            exp_actions = np.reshape(np.array(recorded[0][1]), (len(recorded[0][1]), 1))
        else:
            exp_data = np.hstack([np.asarray(r[0]) for r in recorded])
            exp_actions = np.full((limit + 1, len(recorded), limit), np.nan)
            for rep, r in enumerate(recorded):
                for ep, coal in enumerate(r[1]):
                    for j, c in enumerate(coal):
                        exp_actions[ep, rep, j] = c
        st.evals += 1
        if not savefx.same_matrix(out.data, exp_data):
            st.violation(f"[command {cmd} n={n} {generator}] saved gap matrix {np.asarray(out.data).tolist()} is not the matrix the computation produced "
                         f"{exp_data.tolist()}", **doc)
        elif not savefx.same_matrix(out.actions, exp_actions):
            st.violation(f"[command {cmd} n={n} {generator}] saved action matrix {np.asarray(out.actions).tolist()} is not the one the computation produced "
                         f"{exp_actions.tolist()}", **doc)
        elif exp_data.shape[0] < 2 and limit >= 1:
            st.violation(f"[command {cmd}] a run of at least one step produced a gap matrix of shape {exp_data.shape}", **doc)
        else:
            meta = parsed["metadata"]
            for k in ("number_of_players", "game_generator", "seed", "unique_name"):
                if k not in meta or str(meta[k]) != str(getattr(ns, k)):
                    st.violation(f"[command {cmd}] metadata field {k} = {meta.get(k)!r}, run had {getattr(ns, k)!r}", **doc)
                    break
        st.states += 1
        st.nontrivial += 1
        st.traces += 1
    finally:
        sv.SAVERS.clear()
        sv.SAVERS.update(saved_savers)
        shutil.rmtree(base, ignore_errors=True)
    return st


def dispatch(u) -> Stats:
    return {"bfs": bfs_unit, "full": full_save_unit, "cmd": command_unit}[u[0]](u)


def run(run: Run) -> None:
    import incomplete_cooperative.run.save  # noqa: F401
    quick, seed = run.quick, run.seed
    alphabet = [(nm, k) for nm in NAMES for k in KINDS]
    depth = 3 if quick else 4
    us: list = [("bfs", depth, [op]) for op in alphabet]
    us.append(("bfs", 0, []))
    seqs = [[("a", "neg2x3"), ("b", "int"), ("a", "int")], [("c d", "tensor"), ("c d", "neg2x3"), ("e", "nan1x1")],
            # names that share the stem before their last dot (plot files are named with_suffix), timestamp-like names
            [("greedy", "int"), ("greedy.v2", "neg2x3"), ("exp.1", "int"), ("exp.2", "tensor"), ("2026-10-01T12:00:00.123456", "int"),
             ("2026-10-01T12:00:00.654321", "neg2x3")],
            [("x", "int"), ("y", "big3k")]]
    us.append(("full", seqs[:3] if quick else seqs))
    cmds = []
    for cmd in ("solve", "greedy", "best_states"):
        for n, generator, limit in ((3, "noisy_factory", 2), (3, "xos", 3), (4, "factory", 1), (4, "graph_random", 2)):
            if quick and (n == 4 and cmd != "solve" or (cmd == "best_states" and limit == 3)):
                continue
            cmds.append(("cmd", cmd, n, generator, limit, 2, seed + len(cmds)))
    # the whole save() pipeline (plot savers run BEFORE data.json on the same Output object), incl. a step limit above the number of
    # explorable coalitions (best_states then keeps its -1 placeholder rows)
    cmds.append(("cmd", "best_states", 3, "noisy_factory", 5, 2, seed + 50, True))
    cmds.append(("cmd", "solve", 3, "xos", 2, 2, seed + 51, True))
    us += cmds
    run.rule = ("BFS over all sequences of save_json(name, result) with names {a, b, 'a b/ü'} x results {1x1 NaN, 2x3 with negative/1e300/-0.0, 3-D action "
                "tensor with NaN padding, integer actions} and metadata holding Path / partial / numpy scalars / nested dict, to depth 3 (thorough 4), "
                "de-duplicated on the bytes of data.json; dict model 'first write wins'; read-back through Output.from_file and get_outputs_from_file; "
                "the same through save() with all savers; solve / greedy / best_states commands with the producing function wrapped. "
                "non-trivial = distinct file contents holding >= 2 entries")
    run.bounds = {"depth": depth, "names": list(NAMES), "results": list(KINDS), "commands": len(cmds)}
    run.assumptions = ["exceptions raised by the plot savers on a repeated or path-like name are outside the statement; only data.json is judged",
                       "file states are rebuilt by replaying the save history with the real save_json (each replay is a validated trace)"]
    run.add(fanout(dispatch, us, procs=12, chunk=1))


def replay(doc: dict):
    if doc.get("command"):
        st = command_unit(("cmd", doc["command"], doc["n"], doc["generator"], doc["limit"], doc["reps"], doc["gen_seed"]))
    elif doc.get("full_save"):
        st = full_save_unit(("full", [[tuple(h) for h in doc["history"]]]))
    else:
        hist = [tuple(h) for h in doc["history"]]
        st = bfs_unit(("bfs", len(hist), hist))
    msgs = [v["message"] for v in st.violations]
    return bool(msgs), "; ".join(msgs[:3]) if msgs else "saved results read back faithfully on this history"
