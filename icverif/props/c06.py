"""C06 — the Shapley value is the average marginal contribution over all orderings (DESIGN §6 C06)."""
from __future__ import annotations

import itertools
import math
from fractions import Fraction

from .. import alphabets as A
from .. import envs
from .. import oracles as O
from ..core import Run, Stats, fanout
from ..linform import GenericGame, NonLinear

TOL = 1e-12


def real_shapley(v):
    """Both entry points of the real code on a real complete game object."""
    from incomplete_cooperative.shapley import compute_shapley_value, compute_shapley_value_for_player
    g = envs.full_game(v)
    n = g.number_of_players
    allp = [float(x) for x in compute_shapley_value(g)]
    single = [float(compute_shapley_value_for_player(i, g)) for i in range(n)]
    return allp, single


def check_game(st: Stats, n: int, v, tag: str, tol: float = TOL, bit_exact: bool = False) -> None:
    want = O.shapley_by_orderings(v, n)
    try:
        allp, single = real_shapley(v)
    except Exception as e:  # noqa: BLE001
        st.violation(f"[shapley n={n} {tag}] raised {type(e).__name__}: {e}", n=n, values=list(v))
        return
    st.transitions += 2 * n
    st.evals += 1
    scale = max(1.0, max(abs(float(x)) for x in v))
    if len(allp) != n:
        st.violation(f"[shapley n={n} {tag}] compute_shapley_value returned {len(allp)} numbers", n=n, values=list(v))
        return
    for i in range(n):
        w = float(want[i])
        for name, got in (("compute_shapley_value", allp[i]), ("compute_shapley_value_for_player", single[i])):
            bad = (got != w) if bit_exact else abs(got - w) > tol * scale
            if bad:
                st.violation(f"[shapley n={n} {tag}] {name}: player {i} gets {got}, but the average marginal contribution over all "
                             f"{math.factorial(n)} orderings is {want[i]} (= {w})", n=n, values=list(v), player=i, entry=name)
                return
        if allp[i] != single[i]:
            st.violation(f"[shapley n={n} {tag}] the two entry points disagree for player {i}: {allp[i]} vs {single[i]}", n=n, values=list(v), player=i)
            return
    # consequences (checked directly on the real output)
    if abs(sum(allp) - float(v[-1])) > tol * scale * n:
        st.violation(f"[shapley n={n} {tag}] efficiency: values sum to {sum(allp)} but v(N) = {v[-1]}", n=n, values=list(v))
        return
    for i in range(n):
        if all(v[s | 1 << i] == v[s] for s in range(1 << n) if not s >> i & 1) and abs(allp[i]) > tol * scale:
            st.violation(f"[shapley n={n} {tag}] null player {i} gets {allp[i]}", n=n, values=list(v), player=i)
            return
    if any(x != 0 for x in want):
        st.nontrivial += 1
    st.outcomes.add(tuple(round(x, 9) for x in allp))


def guard_unit(n: int) -> Stats:
    """E5: the real code on indeterminates; coefficients must equal the orderings oracle exactly."""
    from incomplete_cooperative.shapley import compute_shapley_value, compute_shapley_value_for_player
    st = Stats()
    g = GenericGame(n)
    counts = O.shapley_counts(n)
    nf = math.factorial(n)
    try:
        forms_all = list(compute_shapley_value(g))
        forms_single = [compute_shapley_value_for_player(i, g) for i in range(n)]
    except NonLinear as e:
        st.cap(f"generic-point guard refused at n={n}: {e}")
        st.note("the executed path is not data-independent/linear; verdict rests on the enumerated games only")
        return st
    except Exception as e:  # noqa: BLE001 - indeterminates are outside the Game protocol's value domain: never a violation
        st.cap(f"generic-point guard could not run at n={n}: {type(e).__name__}: {e}")
        st.note("the executed path could not be followed on indeterminates; verdict rests on the enumerated games only")
        return st
    st.states += 1
    st.transitions += 2 * n
    for name, forms in (("compute_shapley_value", forms_all), ("compute_shapley_value_for_player", forms_single)):
        for i, f in enumerate(forms):
            st.evals += 1
            if not hasattr(f, "coeff"):
                st.violation(f"[guard n={n}] {name} returned a constant {f!r} for a generic game", n=n, generic=True)
                return st
            for s in range(1, 1 << n):
                want = Fraction(counts[i][s], nf)
                got = f.coeff(("v", s))
                if got != want:
                    st.violation(f"[guard n={n}] {name}: coefficient of v({s}) in player {i}'s value is {got}, "
                                 f"but {counts[i][s]} of the {nf} orderings' marginal contributions give {want}",
                                 n=n, generic=True, player=i, coalition=s)
                    return st
            if f.coeff(1) != 0:
                st.violation(f"[guard n={n}] {name}: constant term {f.coeff(1)} in a linear functional", n=n, generic=True)
                return st
            st.nontrivial += 1
    st.traces += 1
    st.sample({"guard_n": n, "player0_form_terms": len(forms_all[0].c)})
    return st


def basis_unit(n: int) -> Stats:
    """Every unit game e_S through the real float path, both entry points."""
    st = Stats()
    for s in range(1, 1 << n):
        v = [0] * (1 << n)
        v[s] = 1
        check_game(st, n, v, f"unit e_{s}")
        st.states += 1
        if st.nviol >= 3:
            break
    # additivity on pairs of basis games (real output): phi(e_S + e_T) == phi(e_S) + phi(e_T)
    if n <= 5 and st.nviol == 0:
        cache = {}
        for s in range(1, 1 << n):
            v = [0] * (1 << n)
            v[s] = 1
            cache[s] = real_shapley(v)[0]
        for s, t in itertools.combinations(range(1, 1 << n), 2):
            v = [0] * (1 << n)
            v[s] = 1
            v[t] = 1
            got = real_shapley(v)[0]
            st.evals += 1
            if any(abs(got[i] - cache[s][i] - cache[t][i]) > TOL for i in range(n)):
                st.violation(f"[shapley n={n}] not additive on e_{s} + e_{t}: {got} vs {cache[s]} + {cache[t]}", n=n, values=v)
                break
    return st


def lattice_unit(u) -> Stats:
    kind, lo, hi, seed = u
    st = Stats()
    if kind == "a3any":
        games = A.a3_any()[lo:hi]
        for g in games:
            check_game(st, 3, g, "A3-ANY")
            st.states += 1
            if st.nviol >= 3:
                break
            # relabelling: every permutation of the players permutes the value vector
            if st.states % 27 == seed % 27:
                base = real_shapley(g)[0]
                for p in itertools.permutations(range(3)):
                    gp = A.relabel(g, p)
                    got = real_shapley(gp)[0]
                    st.evals += 1
                    if any(abs(got[p[i]] - base[i]) > TOL for i in range(3)):
                        st.violation(f"[shapley n=3] relabelling by {p} does not permute the values: {base} -> {got}", n=3, values=list(gp))
                        break
    elif kind == "a4bin":
        big = [s for s in range(16) if A.popcount(s) >= 2]
        for m in range(lo, hi):
            v = [0] * 16
            for j, s in enumerate(big):
                v[s] = m >> j & 1
            check_game(st, 4, v, "A4-{0,1}")
            st.states += 1
            if st.nviol >= 3:
                break
    elif kind == "scaled":
        # large-magnitude games with a comparatively tiny player / tiny perturbation: v = M * u + e_T (exactly representable)
        base = A.a3_sa((0, 1, 2))
        for m in range(lo, hi):
            u_game = base[m % len(base)]
            t = 1 + (m * 5 + seed) % 7
            for M in (1e6, 1e9):
                v = [M * x for x in u_game]
                v[t] += 1.0
                if t != 7:
                    v[7] += 3.0
                check_game(st, 3, v, f"scaled M={M:g}", tol=1e-15 * 64)
                st.states += 1
            if st.nviol >= 3:
                break
    elif kind == "a4ter":
        # 4 players, singletons free in {-1,0,2}, larger coalitions |S| * seed-dependent pattern: exercises non-zero singletons
        for m in range(lo, hi):
            v = [0] * 16
            x = m
            for s in range(1, 16):
                v[s] = (-1, 0, 2)[x % 3] if A.popcount(s) == 1 or (s + seed) % 3 == 0 else A.popcount(s) * ((x % 3) - 1)
                x //= 3 if A.popcount(s) == 1 else 1
            check_game(st, 4, v, "A4-mixed")
            st.states += 1
            if st.nviol >= 3:
                break
    return st


class NestedGame:
    """A complete game whose value lookup itself runs a Shapley computation of ANOTHER game with the same number of players (as a
    meta-game over exploitabilities does): the outer computation must not be disturbed by the inner one."""

    def __init__(self, table, inner_table) -> None:
        self.table = [float(x) for x in table]
        self.inner = envs.full_game(inner_table)
        self.number_of_players = self.inner.number_of_players

    def _touch(self) -> None:
        from incomplete_cooperative.shapley import compute_shapley_value, compute_shapley_value_for_player
        list(compute_shapley_value(self.inner))
        compute_shapley_value_for_player(0, self.inner)

    def get_values(self, coalitions=None):
        import numpy as np
        self._touch()
        if coalitions is None:
            return np.array(self.table)
        return np.array([self.table[c.id] for c in coalitions])

    def get_value(self, coalition):
        self._touch()
        return self.table[coalition.id]

    def copy(self):
        return self

    def __add__(self, other):
        raise NotImplementedError


def reentrancy_unit(u) -> Stats:
    """Re-entrancy and partial consumption: (a) games whose value lookup computes a Shapley value of the same size; (b) the iterator
    returned by compute_shapley_value abandoned after k < n values, or two iterators consumed alternately."""
    import itertools as it
    from incomplete_cooperative.shapley import compute_shapley_value, compute_shapley_value_for_player
    st = Stats()
    for n in (3, 4, 5):
        outer = [0] + [((s * 5 + 3) % 7) - 2 for s in range(1, 1 << n)]
        inner = [0] + [((s * 3 + 1) % 5) for s in range(1, 1 << n)]
        want = [float(x) for x in O.shapley_by_orderings(outer, n)]
        try:
            g = NestedGame(outer, inner)
            got_all = [float(x) for x in compute_shapley_value(g)]
            got_one = [float(compute_shapley_value_for_player(i, g)) for i in range(n)]
        except Exception as e:  # noqa: BLE001
            st.violation(f"[shapley n={n} nested] raised {type(e).__name__}: {e}", n=n, values=outer, kind="nested")
            continue
        st.states += 1
        st.transitions += 2 * n
        st.evals += 1
        st.nontrivial += 1
        for name, got in (("compute_shapley_value", got_all), ("compute_shapley_value_for_player", got_one)):
            if any(abs(a - b) > TOL * 10 for a, b in zip(got, want)):
                st.violation(f"[shapley n={n} nested] {name} = {got} on a game whose value lookup computes another Shapley value of the same size; "
                             f"the orderings average of its value table is {want}", n=n, values=outer, kind="nested")
        # partial consumption / interleaving, then an ordinary full computation on another game
        a_game, b_game = envs.full_game(outer), envs.full_game(inner)
        want_b = [float(x) for x in O.shapley_by_orderings(inner, n)]
        for k in range(1, n):
            list(it.islice(compute_shapley_value(a_game), k))          # abandoned after k values
            got = [float(x) for x in compute_shapley_value(b_game)]
            st.evals += 1
            st.transitions += 1
            if any(abs(x - y) > TOL * 10 for x, y in zip(got, want_b)):
                st.violation(f"[shapley n={n}] after an iterator of compute_shapley_value was abandoned after {k} values, the next full computation "
                             f"returns {got}, expected {want_b}", n=n, values=inner, kind="partial", k=k)
                break
        pairs = list(zip(compute_shapley_value(a_game), compute_shapley_value(b_game)))     # two iterators consumed alternately
        if any(abs(float(x) - w) > TOL * 10 for (x, _), w in zip(pairs, want)) or any(abs(float(y) - w) > TOL * 10 for (_, y), w in zip(pairs, want_b)):
            st.violation(f"[shapley n={n}] two iterators consumed alternately disturb each other: {pairs}", n=n, values=outer, kind="interleaved")
    return st


def interleaved_unit(u) -> Stats:
    """One process, player counts interleaved (ascending, descending, alternating, repeated): the value of a game must not depend on
    which player counts were used before (memoised coefficients / id arrays keyed too coarsely would show here)."""
    _, order = u
    st = Stats()
    for rnd, n in enumerate(order):
        for k in range(3):
            v = [0] + [((s * (k + 2) + rnd) % 5) - 1 for s in range(1, 1 << n)]
            check_game(st, n, v, f"interleaved order={list(order)} position={rnd}")
            st.states += 1
            if st.nviol >= 3:
                return st
    return st


def large_unit(u) -> Stats:
    """'Numerically beyond': n = 16, 17 (both sides of 2^15 coalitions without the player): integer combination of unanimity games,
    whose Shapley value has the closed form sum_k c_k / |T_k| over the carriers containing the player (exact in rationals)."""
    _, n, players = u
    from incomplete_cooperative.shapley import compute_shapley_value_for_player
    import numpy as np
    st = Stats()
    carriers = [(0b11, 5), ((1 << n) - 1, n), (0b1010101 | 1 << (n - 1), -3), (1 << (n - 1) | 1 << (n - 2) | 1, 7), (0b111000, 2), (1 << (n - 1), 4)]
    ids = np.arange(1 << n)
    vals = np.zeros(1 << n)
    for t, c in carriers:
        vals += c * ((ids & t) == t)
    g = envs.full_game(vals.tolist())
    for i in players:
        want = sum(Fraction(c, A.popcount(t)) for t, c in carriers if t >> i & 1)
        try:
            got = float(compute_shapley_value_for_player(i, g))
        except Exception as e:  # noqa: BLE001
            st.violation(f"[shapley n={n} large] raised {type(e).__name__}: {e}", n=n, large=True, players=list(players))
            return st
        st.states += 1
        st.transitions += 1
        st.evals += 1
        st.nontrivial += 1
        if abs(got - float(want)) > 1e-9:
            st.violation(f"[shapley n={n} large] player {i} gets {got}; for the combination of unanimity games {carriers} the average marginal "
                         f"contribution is sum c_k/|T_k| = {want} (= {float(want)})", n=n, large=True, players=list(players))
            return st
    return st


def dispatch(u) -> Stats:
    if u[0] == "reentrancy":
        return reentrancy_unit(u)
    if u[0] == "large":
        return large_unit(u)
    if u[0] == "inter":
        return interleaved_unit(u)
    if u[0] == "guard":
        return guard_unit(u[1])
    if u[0] == "basis":
        return basis_unit(u[1])
    if u[0] == "eff":
        return efficiency_unit(u[1])
    return lattice_unit(u)


def efficiency_unit(n: int) -> Stats:
    """n = 9, 10: efficiency and linearity only (the n! oracle is out of reach): phi(e_S) summed equals [S = N]; size-symmetric games."""
    st = Stats()
    for k in range(1, n + 1):
        # game v = [|S| >= k]: symmetric, so every player gets v(N)/n = 1/n ... and sum must be 1
        v = [1 if A.popcount(s) >= k else 0 for s in range(1 << n)]
        allp, single = real_shapley(v)
        st.states += 1
        st.transitions += 2 * n
        st.evals += 1
        if abs(sum(allp) - 1) > 1e-9 or any(abs(x - 1 / n) > 1e-9 for x in allp) or any(abs(a - b) > 0 for a, b in zip(allp, single)):
            st.violation(f"[shapley n={n}] threshold game |S|>={k}: got {allp}, expected 1/{n} each", n=n, values=v)
            break
        st.nontrivial += 1
    # one asymmetric unit game per size: only players inside S share 1/|S|... (unanimity-like closed form for e_S is involved; use dictator games)
    for i in (0, n - 1):
        v = [1 if s >> i & 1 else 0 for s in range(1 << n)]
        allp, _ = real_shapley(v)
        st.evals += 1
        if abs(allp[i] - 1) > 1e-9 or any(abs(x) > 1e-9 for j, x in enumerate(allp) if j != i):
            st.violation(f"[shapley n={n}] dictator game of player {i}: got {allp}", n=n, values=v)
    return st


def run(run: Run) -> None:
    quick, seed = run.quick, run.seed
    us: list = [("guard", n) for n in range(2, 10 if not quick else 8)]
    us += [("basis", n) for n in range(2, 8 if quick else 10)]
    us += [("eff", n) for n in ((9,) if quick else (9, 10))]
    step = 243
    us += [("a3any", i, min(i + step, 2187), seed) for i in range(0, 2187, step)]
    us += [("a4bin", i, min(i + 256, 2048), seed) for i in range(0, 2048, 256)]
    us += [("a4ter", i, min(i + 243, 3 ** 6), seed) for i in range(0, 3 ** 6, 243)]
    us += [("scaled", i, i + 23, seed) for i in range(0, 69, 23)]
    us += [("large", 17, (0,)), ("large", 17, (16,)), ("large", 16, (15,))] + ([] if quick else [("large", 17, (5,)), ("large", 18, (17,))])
    us.append(("reentrancy", 0))
    us.append(("large", 20, (0,)))          # beyond 18! (the last factorial below 2^53)
    inter = [("inter", o) for o in ((2, 3, 4, 5, 6, 7), (7, 6, 5, 4, 3, 2), (3, 6, 3, 5, 3, 4, 3), (5, 5, 2, 5, 7, 2, 5), (4, 3, 4, 3, 6, 4))]
    run.rule = ("(i) the real Shapley code executed on indeterminates for each n: exact coefficient of every v(S) for every player compared with the "
                "count over all n! orderings; (ii) every unit game e_S (a basis of the game space) through the real float path, both entry points; "
                "(iii) all 2187 three-player games over {-1,0,1}, all 2048 four-player games over {0,1} on coalitions of size >= 2, 729 mixed games with "
                "non-zero singletons, 138 large-magnitude games M*u + small perturbation (M = 1e6, 1e9); (iv) efficiency, null players, relabellings, additivity on all pairs of basis games (n<=5). "
                "(v) call histories: interleaved player counts within one freshly forked process. "
                "non-trivial = games with a non-zero Shapley vector / coefficient rows verified")
    run.bounds = {"numerical_beyond_n": [16, 17] if quick else [16, 17, 18], "guard_n": [2, 7 if quick else 9], "basis_n": [2, 7 if quick else 9], "efficiency_only_n": [9] if quick else [9, 10]}
    run.assumptions = ["basis x orderings decides the identity for every real game at each enumerated n only together with the linearity guard (E5); "
                       "float rounding is bounded by 1e-12*scale, not enumerated"]
    run.add(fanout(dispatch, sorted(us, key=lambda u: -(u[1] * 100 if u[0] == "large" else u[1] if u[0] in ("guard", "basis", "eff") else 5))))
    from ..core import fresh_forks
    run.add(fresh_forks(dispatch, inter, procs=5))


def replay(doc: dict):
    st = Stats()
    if doc.get("generic"):
        st = guard_unit(doc["n"])
    elif doc.get("large"):
        st = large_unit(("large", doc["n"], tuple(doc.get("players", (0,)))))
    elif doc.get("kind") in ("nested", "partial", "interleaved"):
        st = reentrancy_unit(("reentrancy", 0))
    else:
        check_game(st, doc["n"], doc["values"], "replay")
    msgs = [v["message"] for v in st.violations]
    return bool(msgs), f"replay n={doc['n']} values={doc.get('values')}: " + ("; ".join(msgs) if msgs else "Shapley value equals the orderings oracle")
