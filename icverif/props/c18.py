"""C18 — coalitions are finite sets in both representations; predicates match their definitions (DESIGN §6 C18)."""
from __future__ import annotations

import itertools

import numpy as np

from .. import alphabets as A
from .. import envs
from ..core import Run, Stats, fanout


def fs(c: int) -> frozenset:
    return frozenset(i for i in range(c.bit_length()) if c >> i & 1)


def idof(s) -> int:
    return sum(1 << i for i in s)


def unary_unit(u) -> Stats:
    """Every coalition of an n-player game: unary operations and sub-/super-coalition enumeration, object vs ids vs frozenset."""
    _, n, lo, hi, objects = u
    from incomplete_cooperative import coalition_ids as ci
    from incomplete_cooperative import coalitions as co
    st = Stats()
    full = frozenset(range(n))

    def bad(msg, **kw):
        st.violation(f"[sets n={n}] {msg}", n=n, kind="unary", **kw)

    if lo == 0:
        allc = [c.id for c in co.all_coalitions(n)]
        if allc != list(range(1 << n)) or ci.get_all_coalitions(n).tolist() != list(range(1 << n)):
            bad("all_coalitions / get_all_coalitions do not list ids 0..2^n-1")
        if co.grand_coalition(n).id != (1 << n) - 1:
            bad("grand_coalition wrong")
        if {c.id for c in co.minimal_game_coalitions(n)} != set(A.minimal_ids(n)):
            bad(f"minimal_game_coalitions = {sorted(c.id for c in co.minimal_game_coalitions(n))}")
        for i in range(n):
            if co.player_to_coalition(i).id != 1 << i:
                bad(f"player_to_coalition({i})")
    for c in range(lo, hi):
        S = fs(c)
        st.states += 1
        C = co.Coalition(c)
        try:
            if list(C.players) != sorted(S):
                bad(f"players of {c}: {list(C.players)}", coalition=c)
            if len(C) != len(S):
                bad(f"len of {c}: {len(C)}", coalition=c)
            if co.Coalition.from_players(list(S)).id != c or co.Coalition.from_players(reversed(sorted(S))).id != c:
                bad(f"from_players roundtrip of {c}", coalition=c)
            # a player named more than once is still one member (set semantics), whatever container the players come in
            dup = sorted(S) + sorted(S)[:2] + sorted(S)[-1:]
            for players in (dup, tuple(dup), iter(dup), set(S), frozenset(S), np.array(sorted(S), dtype=np.int64)):
                if co.Coalition.from_players(players).id != c:
                    bad(f"from_players({dup} as {type(players).__name__}) of {c}", coalition=c)
            if C.inverted(n).id != idof(full - S):
                bad(f"complement of {c} in {n} players: {C.inverted(n).id}", coalition=c)
            for i in range(n):
                if (i in C) != (i in S):
                    bad(f"membership of player {i} in {c}: {i in C}", coalition=c, player=i)
                if (C + i).id != idof(S | {i}) or (C - i).id != idof(S - {i}):
                    bad(f"add/remove player {i} on {c}", coalition=c, player=i)
                if (C | i).id != idof(S | {i}) or (C & i).id != idof(S & {i}):
                    bad(f"| / & with player {i} on {c}", coalition=c, player=i)
            if ci.players(np.int32(c), n).tolist() != sorted(S):
                bad(f"coalition_ids.players({c}) = {ci.players(np.int32(c), n).tolist()}", coalition=c)
            if int(ci.get_size(np.int32(c), n)) != len(S):
                bad(f"coalition_ids.get_size({c}) = {int(ci.get_size(np.int32(c), n))}", coalition=c)
            st.transitions += 6 + 4 * n
            # enumeration of sub- and super-coalitions
            want_sub = sorted(idof(x) for r in range(len(S) + 1) for x in itertools.combinations(sorted(S), r))
            rest = sorted(full - S)
            want_sup = sorted(c | idof(x) for r in range(len(rest) + 1) for x in itertools.combinations(rest, r))
            got = ci.sub_coalitions(np.int32(c), n).tolist()
            if sorted(got) != want_sub or len(got) != len(set(got)):
                bad(f"coalition_ids.sub_coalitions({c}, {n}) = {sorted(got)}; subsets are {want_sub}", coalition=c)
            got = ci.super_coalitions(np.int32(c), n).tolist()
            if sorted(got) != want_sup or len(got) != len(set(got)):
                bad(f"coalition_ids.super_coalitions({c}, {n}) = {sorted(got)}; supersets are {want_sup}", coalition=c)
            st.transitions += 2
            st.evals += len(want_sub) + len(want_sup)
            if objects:
                got = [x.id for x in co.get_sub_coalitions(C)]
                if sorted(got) != want_sub or len(got) != len(set(got)):
                    bad(f"get_sub_coalitions({c}) = {sorted(got)}; subsets are {want_sub}", coalition=c)
                got = [x.id for x in co.get_super_coalitions(C, n)]
                if sorted(got) != want_sup or len(got) != len(set(got)):
                    bad(f"get_super_coalitions({c}, {n}) = {sorted(got)}; supersets are {want_sup}", coalition=c)
                st.transitions += 2
        except Exception as e:  # noqa: BLE001
            bad(f"operation on coalition {c} raised {type(e).__name__}: {e}", coalition=c)
        if 0 < len(S) < n:
            st.nontrivial += 1
        if st.nviol >= 3:
            break
    return st


def binary_unit(u) -> Stats:
    """All ordered pairs of coalitions for n <= 6: binary operators vs frozenset."""
    _, n, lo, hi = u
    from incomplete_cooperative import coalitions as co
    st = Stats()
    for a in range(lo, hi):
        A_, SA = co.Coalition(a), fs(a)
        for b in range(1 << n):
            B_, SB = co.Coalition(b), fs(b)
            st.states += 1
            st.transitions += 7
            try:
                res = {
                    "|": ((A_ | B_).id, idof(SA | SB)), "&": ((A_ & B_).id, idof(SA & SB)), "-": ((A_ - B_).id, idof(SA - SB)),
                    "in": ((B_ in A_), SB <= SA), "==": ((A_ == B_), SA == SB), "disjoint": (co.disjoint_coalitions(A_, B_), not (SA & SB)),
                    "hash": (hash(A_) == hash(B_) or a != b, True),
                }
            except Exception as e:  # noqa: BLE001
                st.violation(f"[sets n={n}] binary operation on ({a}, {b}) raised {type(e).__name__}: {e}", n=n, kind="binary", a=a, b=b)
                return st
            for op, (got, want) in res.items():
                if got != want:
                    st.violation(f"[sets n={n}] {a} {op} {b} = {got}, finite-set semantics give {want}", n=n, kind="binary", a=a, b=b, op=op)
            # value semantics: no operation changes an operand, and the augmented forms rebind the name only - exactly like
            # `t = s; t |= x` on frozensets (or on the integer ids), which leaves s and every container holding s alone
            if A_.id != a or B_.id != b:
                st.violation(f"[sets n={n}] a binary operation on ({a}, {b}) changed an operand: now ({A_.id}, {B_.id})", n=n, kind="binary", a=a, b=b, op="operands")
                A_, B_ = co.Coalition(a), co.Coalition(b)
            for op, want in (("|=", idof(SA | SB)), ("&=", idof(SA & SB)), ("-=", idof(SA - SB))):
                orig = co.Coalition(a)
                holder = {orig: a}
                h0 = hash(orig)
                t = orig
                try:
                    if op == "|=":
                        t |= B_
                    elif op == "&=":
                        t &= B_
                    else:
                        t -= B_
                except Exception as e:  # noqa: BLE001
                    st.violation(f"[sets n={n}] {a} {op} {b} raised {type(e).__name__}: {e}", n=n, kind="binary", a=a, b=b, op=op)
                    continue
                st.transitions += 1
                if t.id != want:
                    st.violation(f"[sets n={n}] t = {a}; t {op} {b} gives {t.id}, finite-set semantics give {want}", n=n, kind="binary", a=a, b=b, op=op)
                if orig.id != a or B_.id != b or hash(orig) != h0 or holder.get(co.Coalition(a)) != a:
                    st.violation(f"[sets n={n}] s = {a}; t = s; t {op} {b} changed s itself to {orig.id} (frozensets and integer ids keep s; a dict keyed by s "
                                 f"no longer finds it)", n=n, kind="binary", a=a, b=b, op=op + " aliasing")
                    B_ = co.Coalition(b)
            if a and b and a != b:
                st.nontrivial += 1
        got = sorted(x.id for x in co.exclude_coalition(A_, co.all_coalitions(n)))
        want = sorted(c for c in range(1 << n) if not c & a)
        st.evals += 1
        if got != want:
            st.violation(f"[sets n={n}] exclude_coalition({a}) = {got}, expected {want}", n=n, kind="binary", a=a, b=0, op="exclude")
        if st.nviol >= 3:
            break
    return st


# ----------------------------------------------------------------------------- predicates

def textbook(v, n: int):
    sa = A.is_superadditive(v)
    mono = all(v[s] >= v[t] for t in range(1 << n) for s in [0] + list(A.proper_nonempty_subsets(t)))
    return sa, mono


def supermodular(v, n: int) -> bool:
    for t in range(1 << n):
        for i in range(n):
            if t >> i & 1:
                continue
            rhs = v[t | 1 << i] - v[t]
            for s in [0] + list(A.proper_nonempty_subsets(t)):
                if v[s | 1 << i] - v[s] > rhs:
                    return False
    return True


def predicate_unit(u) -> Stats:
    _, n, vals, lo, hi, do_supermod = u
    from incomplete_cooperative.game_properties import is_monotone_decreasing, is_sam, is_superadditive
    from incomplete_cooperative.supermodularity_check import check_supermodularity
    st = Stats()
    m = (1 << n) - 1
    k = len(vals)
    for idx in range(lo, hi):
        v = [0] * (1 << n)
        x = idx
        for s in range(1, 1 << n):
            v[s] = vals[x % k]
            x //= k
        g = envs.full_game(v)
        sa, mono = textbook(v, n)
        st.states += 1
        st.transitions += 3
        try:
            got = (bool(is_superadditive(g)), bool(is_monotone_decreasing(g)), bool(is_sam(g)))
        except Exception as e:  # noqa: BLE001
            st.violation(f"[predicates n={n}] raised {type(e).__name__}: {e} on {v}", n=n, kind="predicate", values=v)
            return st
        want = (sa, mono, sa and mono)
        if got != want:
            st.violation(f"[predicates n={n}] (is_superadditive, is_monotone_decreasing, is_sam) = {got} on {v}; textbook definitions give {want}",
                         n=n, kind="predicate", values=v)
        if do_supermod:
            r = check_supermodularity(g)
            st.transitions += 1
            if (r is None) != supermodular(v, n):
                st.violation(f"[predicates n={n}] check_supermodularity returned {r} on {v}; textbook supermodular = {supermodular(v, n)}",
                             n=n, kind="supermod", values=v)
        if sa != mono:
            st.nontrivial += 1
        st.outcomes.add(got)
        # tolerance band: a tight, non-zero grand-coalition constraint perturbed by relative 1e-6
        if sa and v[m] != 0 and any(v[a] + v[b] == v[m] for a, b in A.proper_splits(m)):
            for factor, expect in ((1 - 1e-6 if v[m] > 0 else 1 + 1e-6, False), (1 + 1e-6 if v[m] > 0 else 1 - 1e-6, True)):
                w = list(v)
                w[m] = v[m] * factor
                gotp = bool(is_superadditive(envs.full_game(w)))
                st.evals += 1
                if gotp != expect:
                    st.violation(f"[predicates n={n}] is_superadditive = {gotp} on {w} (grand coalition perturbed by relative 1e-6 "
                                 f"{'below' if not expect else 'above'} a tight constraint)", n=n, kind="predicate-perturbed", values=w, expect=expect)
        if st.nviol >= 3:
            break
    return st


def scaled_verdict(fv, n: int):
    """Superadditivity of a float game decided in exact rationals with the documented RELATIVE tolerance 1e-9:
    True  - every split has excess <= 1e-12 * |v(U)| (nothing but rounding noise),
    False - some split has excess > 1e-6 * |v(U)| (far outside the band),
    None  - something in between: unconstrained."""
    from fractions import Fraction
    fr = [Fraction(x) for x in fv]
    verdict = True
    for u_ in range(1, 1 << n):
        for a, b in A.proper_splits(u_):
            ex = fr[a] + fr[b] - fr[u_]
            if ex <= 0:
                continue
            mag = abs(fr[u_])
            if ex > mag / 10 ** 6:
                return False
            if ex > mag / 10 ** 12:
                verdict = None
    return verdict


def scale_unit(u) -> Stats:
    """The superadditivity predicate is scale free (relative tolerance): lattice games in tiny units, in huge units, and additive
    games with non-dyadic weights at huge scale (pure rounding noise)."""
    _, lo, hi = u
    from incomplete_cooperative.game_properties import is_sam, is_superadditive
    st = Stats()
    n = 3
    vals = (-1, 0, 1, 2)
    for idx in range(lo, hi):
        v = [0] * 8
        x = idx
        for s in range(1, 8):
            v[s] = vals[x % 4]
            x //= 4
        for scale in (2.0 ** -40, 1e-12, 1e9 / 7, 2.0 ** 30 / 3):
            fv = [float(t * scale) for t in v]
            want = scaled_verdict(fv, n)
            if want is None:
                continue
            got = bool(is_superadditive(envs.full_game(fv)))
            st.states += 1
            st.transitions += 1
            st.evals += 1
            if got != want:
                st.violation(f"[predicates n=3 scale={scale:g}] is_superadditive = {got} on {fv}; with the documented relative tolerance the verdict is {want} "
                             f"(the same game in unit scale: {v})", n=n, kind="scaled", values=fv, expect=want)
                if st.nviol >= 3:
                    return st
            st.nontrivial += 1
    # additive games with non-dyadic weights at huge scale: superadditive up to rounding noise only
    for k, w in enumerate(((1 / 3, 1 / 7, 1 / 11, 1 / 13), (0.1, 0.2, 0.3, 0.7), (1 / 3, -1 / 7, 2 / 9, -1 / 13))):
        for unit in (1.0, 1e9, 1e12):
            for m in (3, 4):
                fv = [float(sum(w[i] * unit for i in range(m) if s >> i & 1)) for s in range(1 << m)]
                want = scaled_verdict(fv, m)
                if want is None:
                    continue
                got = bool(is_superadditive(envs.full_game(fv)))
                st.evals += 1
                st.states += 1
                if got != want:
                    st.violation(f"[predicates n={m}] is_superadditive = {got} on the additive game with weights {w[:m]} x {unit:g}; it is superadditive up to "
                                 f"rounding noise (relative excess below 1e-12)", n=m, kind="scaled", values=fv, expect=want)
    return st


def empty_value_unit(u) -> Stats:
    """The empty coalition takes part in the textbook definition (S = empty, T = U: v(empty) + v(U) <= v(U), i.e. v(empty) <= 0):
    every 2-player game over {-1,0,1,2} and every 3-player game over {0,1} with v(empty) in {-1, 1}."""
    from incomplete_cooperative.game_properties import is_superadditive
    st = Stats()
    games = [(2, (v0,) + t) for v0 in (-1, 1) for t in itertools.product((-1, 0, 1, 2), repeat=3)]
    games += [(3, (v0,) + t) for v0 in (-1, 1) for t in itertools.product((0, 1), repeat=7)]
    for n, v in games:
        want = all(v[a] + v[b] <= v[a | b] for a in range(1 << n) for b in range(1 << n) if not a & b)
        try:
            got = bool(is_superadditive(envs.full_game([float(x) for x in v])))
        except Exception as e:  # noqa: BLE001
            st.violation(f"[predicates n={n}] is_superadditive raised {type(e).__name__}: {e} on {list(v)}", n=n, kind="empty-value", values=list(v))
            return st
        st.states += 1
        st.transitions += 1
        st.outcomes.add((got, v[0]))
        if want:
            st.nontrivial += 1
        if got != want:
            st.violation(f"[predicates n={n}] is_superadditive = {got} on {list(v)} (v(empty) = {v[0]}); over ALL disjoint pairs, the empty coalition "
                         f"included, the definition gives {want}", n=n, kind="empty-value", values=list(v), expect=want)
            if st.nviol >= 3:
                return st
    return st


TOLS = ((1e-9, 0.0), (1e-9, 1e-12), (1e-9, 1e-3), (0.0, 1e-6), (1e-3, 0.0), (0.0, 0.0), (1e-6, 1e-6), (1e-12, 1e-9))


def tol_verdict(fv, n: int, rtol: float, atol: float):
    """Verdict of is_superadditive(game, rtol, atol) by the documented rule `excess <= atol + rtol*|v(U)|` (numpy.isclose) in exact
    rationals. True / False outside a thin band around the threshold (0.1 % of the tolerance + 4 ulp of the operands), None inside."""
    from fractions import Fraction
    fr = [Fraction(x) for x in fv]
    verdict = True
    for u_ in range(1, 1 << n):
        for a, b in A.proper_splits(u_):
            ex = fr[a] + fr[b] - fr[u_]
            if ex <= 0:
                continue
            tol = Fraction(atol) + Fraction(rtol) * abs(fr[u_])
            ulp = Fraction(4, 2 ** 52) * max(abs(fr[a]), abs(fr[b]), abs(fr[u_]))
            if ex > tol * Fraction(1001, 1000) + ulp:
                return False
            if ex > tol * Fraction(999, 1000) - ulp:
                verdict = None
    return verdict


def tolerance_unit(u) -> Stats:
    """The two tolerance parameters are configuration: every combination of a small menu, on additive games with non-dyadic weights
    whose grand value is lowered by a relative eps (the excess straddles every threshold of the menu) and on lattice games in odd units."""
    _, k = u
    from incomplete_cooperative.game_properties import is_superadditive
    st = Stats()
    weights = ((1 / 3, 1 / 7, 1 / 11, 1 / 13), (0.1, 0.2, 0.3, 0.7), (100.1, 200.2, 300.3, 50.7), (1 / 3, -1 / 7, 2 / 9, -1 / 13))
    games = []
    w = weights[k]
    for unit in (1.0, 1e-6, 1e9):
        for m in (3, 4):
            base = [float(sum(w[i] * unit for i in range(m) if s >> i & 1)) for s in range(1 << m)]
            for eps in (0.0, 1e-14, 1e-11, 1e-10, 3e-9, 1e-7, 1e-5, 2e-3, 1e-1):
                for which in ((1 << m) - 1, 3):
                    fv = list(base)
                    fv[which] = fv[which] - abs(fv[which]) * eps
                    games.append((m, fv, f"additive weights {w[:m]} x {unit:g}, v({which}) lowered by relative {eps:g}"))
    for m, fv, what in games:
        g = envs.full_game(fv)
        for rtol, atol in TOLS:
            want = tol_verdict(fv, m, rtol, atol)
            st.states += 1
            if want is None:
                continue
            st.transitions += 1
            st.evals += 1
            try:
                got = bool(is_superadditive(g, rtol=rtol, atol=atol))
            except Exception as e:  # noqa: BLE001
                st.violation(f"[predicates n={m}] is_superadditive(rtol={rtol:g}, atol={atol:g}) raised {type(e).__name__}: {e}", n=m, kind="tol", values=fv, rtol=rtol, atol=atol, expect=want)
                return st
            st.outcomes.add((got, rtol, atol))
            if want is False:
                st.nontrivial += 1
            if got != want:
                st.violation(f"[predicates n={m}] is_superadditive(rtol={rtol:g}, atol={atol:g}) = {got} on {what}; by the documented rule "
                             f"(excess <= atol + rtol*|v(U)|, decided in exact rationals) the verdict is {want}", n=m, kind="tol", values=fv, rtol=rtol, atol=atol, expect=want)
                if st.nviol >= 3:
                    return st
    return st


def dispatch(u) -> Stats:
    return {"unary": unary_unit, "binary": binary_unit, "pred": predicate_unit, "scale": scale_unit, "tol": tolerance_unit, "empty": empty_value_unit}[u[0]](u)


def run(run: Run) -> None:
    quick = run.quick
    us: list = []
    for n in range(1, 11 if quick else 13):
        objects = n <= (8 if quick else 10)
        step = max(1, (1 << n) // 8)
        us += [("unary", n, i, min(i + step, 1 << n), objects) for i in range(0, 1 << n, step)]
    for n in range(1, 7 if quick else 8):
        step = max(1, (1 << n) // 8)
        us += [("binary", n, i, min(i + step, 1 << n)) for i in range(0, 1 << n, step)]
    tot = 4 ** 7
    us += [("pred", 3, (-1, 0, 1, 2), i, min(i + 1024, tot), False) for i in range(0, tot, 1024)]
    tot = 3 ** 7
    us += [("pred", 3, (0, 1, 2), i, min(i + 243, tot), True) for i in range(0, tot, 243)]
    tot = 2 ** 15
    us += [("pred", 4, (0, 1), i, min(i + 2048, tot), False) for i in range(0, tot, 2048)]
    us += [("pred", 4, (0, -1), i, min(i + 2048, tot), False) for i in range(0, tot, 2048)]
    if not quick:
        tot = 3 ** 7
        us += [("pred", 3, (-2, -1, 0), i, min(i + 243, tot), True) for i in range(0, tot, 243)]
        tot = 5 ** 7
        us += [("pred", 3, (-2, -1, 0, 1, 3), i, min(i + 3125, tot), False) for i in range(0, tot, 3125)]
    us += [("scale", i, min(i + 2048, 4 ** 7)) for i in range(0, 4 ** 7, 2048)]
    us += [("tol", k) for k in range(4)]
    us += [("empty", 0)]
    run.rule = ("every coalition for n=1..10 (unary operations, sub-/super-coalition enumeration: 3^n elements per n), every ordered pair for n<=6 "
                "(binary operators), object API vs id-array API vs Python frozenset; predicates on ALL games over {-1,0,1,2}^7 (n=3), {0,1}^15 and "
                "{0,-1}^15 (n=4), supermodularity on {0,1,2}^7, plus relative-1e-6 perturbations of tight grand-coalition constraints; the whole n=3 lattice again in tiny and huge units and additive "
                "games with non-dyadic weights at scales 1, 1e9, 1e12 (the tolerance is relative); eight (rtol, atol) combinations on additive games whose "
                "grand / pair value is lowered by relative 0 .. 1e-1; augmented assignment (|=, &=, -=) on an aliased operand that is also a dict key. "
                "non-trivial = proper non-empty coalitions / distinct pairs / games where the predicates disagree with each other")
    run.bounds = {"n_unary": [1, 10 if quick else 12], "n_binary": [1, 6 if quick else 7], "object_enumeration_up_to_n": 8 if quick else 10}
    run.assumptions = ["the inside of the documented 1e-9 relative band of is_superadditive is left unconstrained"]
    run.add(fanout(dispatch, sorted(us, key=lambda u: -(u[1] + (5 if u[0] == "pred" else 0))), chunk=1))


def replay(doc: dict):
    kind = doc.get("kind")
    n = doc["n"]
    if kind == "unary":
        st = unary_unit(("unary", n, doc.get("coalition", 0), doc.get("coalition", 0) + 1, True))
    elif kind == "binary":
        st = binary_unit(("binary", n, doc["a"], doc["a"] + 1))
    else:
        from incomplete_cooperative.game_properties import is_monotone_decreasing, is_sam, is_superadditive
        v = doc["values"]
        g = envs.full_game(v)
        if kind == "empty-value":
            got = bool(is_superadditive(g))
            return got != doc["expect"], f"is_superadditive({v}) = {got}, expected {doc['expect']}"
        if kind == "tol":
            got = bool(is_superadditive(g, rtol=doc["rtol"], atol=doc["atol"]))
            return got != doc["expect"], f"is_superadditive({v}, rtol={doc['rtol']}, atol={doc['atol']}) = {got}, expected {doc['expect']}"
        if kind in ("predicate-perturbed", "scaled"):
            got = bool(is_superadditive(g))
            return got != doc["expect"], f"is_superadditive({v}) = {got}, expected {doc['expect']}"
        sa, mono = textbook([x for x in v], n)
        got = (bool(is_superadditive(g)), bool(is_monotone_decreasing(g)), bool(is_sam(g)))
        ok = got == (sa, mono, sa and mono)
        if kind == "supermod":
            from incomplete_cooperative.supermodularity_check import check_supermodularity
            ok = ok and ((check_supermodularity(g) is None) == supermodular(v, n))
        return (not ok), f"predicates on {v}: code {got}, textbook {(sa, mono, sa and mono)}"
    msgs = [v["message"] for v in st.violations]
    return bool(msgs), "; ".join(msgs) if msgs else "set semantics hold on this input"
