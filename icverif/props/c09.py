"""C09 — the reveal-one-coalition environment reflects exactly what was revealed (DESIGN §6 C09)."""
from __future__ import annotations

from .. import alphabets as A
from .. import gaps, gens
from ..core import Run, Stats, fanout
from ..envmodel import EnvCfg, explore_env, replay_env  # noqa: F401

SA = ("superadditive", "superadditive_cached")


def unit(u) -> Stats:
    if u[0] == "instance":
        return instance_unit(u)
    n, games, comp, gap_name, budget, tag, depth = u[:7]
    known_extra = u[7] if len(u) > 7 else ()
    snap = u[8] if len(u) > 8 else "deepcopy"
    ftol = 0.0
    resolved = []
    for g in games:
        if isinstance(g, tuple) and g and g[0] == "GEN":
            vals = gens.draw(g[1], g[2], g[3])
            ftol = max(ftol, gens.float_tol(vals, n))
            resolved.append(vals)
        else:
            resolved.append(g)
    st = Stats()
    cfg = EnvCfg(n, resolved, comp, gap_name, budget, tag, ftol, known_extra)
    explore_env(st, cfg, "reference", max_depth=depth, snap=snap)
    st.traces += 1
    if n == 3 and tag == "exact3" and comp == "superadditive" and gap_name == "l1_norm" and budget is None:
        st.sample({"n": n, "hidden_games": [list(g) for g in resolved], "computer": comp, "gap": gap_name, "ops": ["step(a)", "unstep(a)", "reset"],
                   "model_states": st.counters.get("env_model_states")})
    return st


def instance_unit(u) -> Stats:
    """Environments handed out by one ModelInstance (as make_vec_env / evaluate() do) are independent of each other: operations on one
    never show in the other. Both are driven through an interleaved history; each is compared with the reference for ITS OWN history."""
    _, n, generator, comp, gap_name, gen_seed = u
    from incomplete_cooperative.run.model import ModelInstance
    from ..envmodel import Reference, compare_reference
    st = Stats()
    doc = {"engine": "instance", "n": n, "generator": generator, "computer": comp, "gap": gap_name, "gen_seed": gen_seed}
    try:
        inst = ModelInstance(number_of_players=n, game_class=comp, game_generator=generator, gap_function=gap_name, seed=gen_seed)
        a, b = inst.get_env(), inst.get_env()
    except Exception as e:  # noqa: BLE001
        st.violation(f"[instance n={n} {generator}] get_env raised {type(e).__name__}: {e}", **doc)
        return st
    m = len(a.explorable_coalitions)
    script = [("a", "step", 0), ("b", "reset", None), ("b", "step", m - 1), ("a", "step", 1), ("b", "step", 0), ("a", "unstep", 0), ("b", "reset", None),
              ("a", "step", 2 % m), ("b", "step", 1)]
    state = {"a": [a, frozenset()], "b": [b, frozenset()]}
    hist = []
    for who, op, arg in script:
        env, R = state[who]
        try:
            if op == "reset":
                env.reset()
                R = frozenset()
            else:
                if (op == "step") == (arg in R):
                    continue
                getattr(env, op)(arg)
                R = R | {arg} if op == "step" else R - {arg}
        except Exception as e:  # noqa: BLE001
            st.violation(f"[instance n={n} {generator}] env {who}: {op}({arg}) raised {type(e).__name__}: {e} after {hist}", history=[list(map(str, h)) for h in hist], **doc)
            return st
        state[who][1] = R
        hist.append((who, op, arg))
        st.transitions += 1
        for w2 in ("a", "b"):            # BOTH environments must still show exactly their own history
            e2, R2 = state[w2]
            v = tuple(float(x) for x in e2.full_game.get_values())
            cfg = EnvCfg(n, [v], comp, gap_name, None, "instance", gens.float_tol(v, n))
            msg = compare_reference(cfg, Reference(cfg), e2, 0, R2, len(R2))
            st.evals += 1
            if msg:
                st.violation(f"[instance n={n} {generator} {comp}] after the interleaved history {hist}, environment {w2} (own reveals {sorted(R2)}): {msg}",
                             history=[list(map(str, h)) for h in hist], **doc)
                return st
        st.states += 1
        st.nontrivial += 1
    return st


def units(run: Run):
    seed, quick = run.quick and run.seed, run.quick
    seed = run.seed
    us = []
    g3 = A.a3_sa()
    # three scripted hidden games per env: a shifted one, an additive one, one whose intervals are degenerate before everything is revealed
    additive3 = A.shifted(tuple([0] * 8), A.ADD3)
    degenerate3 = tuple(0 if A.popcount(s) < 3 else 0 for s in range(8))      # all-zero game: every interval degenerate at minimal knowledge
    picks = [g3[(97 * (seed + 1) + 211 * k) % len(g3)] for k in range(4)]
    script3 = [A.shifted(picks[0], A.ADD3), additive3, A.scaled(picks[1], 0.25), degenerate3, picks[2],
               A.shifted(picks[3], tuple(A.BIG * x for x in (1, -1, 2))), A.scaled(picks[0], A.TINY)]
    for comp in SA:
        for gap_name in gaps.NAMES:
            for budget in (None, 1, 2, 3):
                us.append((3, script3, comp, gap_name, budget, "exact3", None))
    # every state carried over by a pickle round trip (what a pool worker receives in evaluate()), SA and SAM computers
    for k, (comp, gap_name, budget) in enumerate(((SA[0], "l1_norm", None), (SA[1], "exploitability", 2), ("sam_apx_1", "linf_norm", None))):
        us.append((3, script3 if k < 2 else [tuple([0] * 8)], comp, gap_name, budget, "exact3-pickled", None, (), "pickle"))
    sam3 = A.a3_sam()
    script3s = [sam3[(31 * (seed + 1)) % len(sam3)], A.shifted(sam3[(57 * (seed + 2)) % len(sam3)], (-1, -2, 0)), tuple([0] * 8)]
    for comp in ("sam_apx_1", "sam_apx_10", "sam_apx_100"):
        for gap_name in (gaps.NAMES if not quick else ("exploitability", "linf_norm")):
            for budget in (None, 2):
                us.append((3, script3s, comp, gap_name, budget, "sam3", None))
    us.append((3, script3s[:2], "sam_apx_1000", "l1_norm", None, "sam3", None))
    # n = 4: all 1024 knowledge states x 10 step/unstep transitions (+ reset)
    reps = A.a4_sa_reps(seed)
    g4a = A.shifted(reps[(13 * (seed + 1)) % len(reps)], A.ADD4)
    g4b = reps[(71 * (seed + 3)) % len(reps)]
    n4 = [(SA[1], "l1_norm", None)] if quick else [(c, g, b) for c in SA for g in gaps.NAMES for b in (None, 3, 10)]
    for comp, gap_name, budget in n4:
        us.append((4, [g4a] if quick else [g4a, g4b], comp, gap_name, budget, "exact4", None))
    # n = 4 with more coalitions known from the start (explorable = the rest): pairs known -> 16 states, triples known -> 64 states
    pairs = tuple(s for s in range(16) if A.popcount(s) == 2)
    triples = tuple(s for s in range(16) if A.popcount(s) == 3)
    for comp in SA:
        for gap_name in gaps.NAMES:
            for budget in (None, 2):
                us.append((4, [g4a, g4b], comp, gap_name, budget, "exact4-pairs-known", None, pairs))
            us.append((4, [g4a, g4b], comp, gap_name, None if gap_name != "l2_norm" else 5, "exact4-triples-known", None, triples))
    sam4 = A.a4_sam()
    us.append((4, [sam4[(5 * (seed + 1)) % len(sam4)]], "sam_apx_1", "l2_norm", None if quick else 4, "sam4", None, () if not quick else triples))
    # float hidden games: one script per generator family
    fams = list(gens.SA_FAMILIES)
    for i, name in enumerate(fams):
        sd = gens.seed_window(seed, 2)
        comps = SA + (("sam_apx_1",) if gens.is_sam_family(name) else ())
        for j, comp in enumerate(comps):
            gap_name = gaps.NAMES[(i + j) % 4]
            us.append((3, [("GEN", name, 3, s) for s in sd], comp, gap_name, (None, 2)[(i + j) % 2], f"gen:{name}", None))
    # larger player counts (depth-bounded): n = 5 with all pairs known from the start (15 explorable), n = 6 with pairs and triples known
    g5 = A.shifted(tuple(A.popcount(s) ** 2 + (s % 3) for s in range(32)), (1, -1, 2, 0, 3))
    us.append((5, [g5, A.scaled(g5, 0.5)], SA[1], "l1_norm", 3, "exact5-pairs-known", 2, tuple(s for s in range(32) if A.popcount(s) == 2)))
    g6 = dict(A.larger_n_samples(6))["star+convex"]
    us.append((6, [g6], SA[1], "linf_norm", None, "exact6-small-known", 2 if quick else 3, tuple(s for s in range(64) if A.popcount(s) in (2, 3))))
    us.append((6, [dict(A.larger_n_samples(6))["path-shift"]], SA[0], "l1_norm", None, "exact6-minimal-depth1", 1))
    us.append((5, [A.budget_game(5, 3)], "sam_apx_1", "l1_norm", None, "budget5-3-depth2", 2))
    us.append((5, [A.budget_game(5, 2)], "sam_apx_1", "linf_norm", 2, "budget5-2-depth2", 2))
    for k, (generator, n_) in enumerate((("noisy_factory", 3), ("xos", 4), ("graph_random", 3), ("k_budget_generator", 4))):
        us.append(("instance", n_, generator, SA[k % 2], gaps.NAMES[k % 4], seed + k))
    # float hidden games that become tight before everything is revealed (unit-demand games with all demands on one player)
    for k, name in enumerate(("xs2", "xs3", "xs2")):
        for s_ in gens.seed_window(seed, 6 if quick else 16):
            us.append((4 if k < 2 else 5, [("GEN", name, 4 if k < 2 else 5, s_)], SA[1], "exploitability", (None, 3)[s_ % 2], f"gen:{name}:{s_}", 1 if k == 2 else 2,
                       tuple(c for c in range(16) if A.popcount(c) == 2) if k < 2 else tuple(c for c in range(32) if A.popcount(c) in (2, 3))))
    g7 = dict(A.larger_n_samples(7))["matching-shift"]
    us.append((7, [g7], SA[1], "l1_norm", 2, "exact7-depth1", 1))
    us.append((7, [A.budget_game(7, 2)], "sam_apx_1", "linf_norm", None, "budget7-depth1", 1))
    if not quick:
        for i, name in enumerate(fams):
            us.append((4, [("GEN", name, 4, gens.seed_window(seed, 1)[0])], SA[1], gaps.NAMES[i % 4], None, f"gen4:{name}", None))
        us.append((5, [A.shifted(tuple(A.popcount(s) ** 2 for s in range(32)), (1, -1, 2, 0, 3))], SA[1], "l1_norm", None, "exact5", 3))
    return us


def cost(u) -> float:
    if u[0] == "instance":
        return 50
    if u[0] >= 5:
        return 3000
    if len(u) > 7 and u[7]:
        return 2 ** (2 ** u[0] - u[0] - 2 - len(u[7])) * len(u[1])
    return (2 ** (2 ** u[0] - u[0] - 2)) * len(u[1]) * (4 if u[2] == "sam_apx_100" else 40 if u[2] == "sam_apx_1000" else 1)


def run(run: Run) -> None:
    gaps.registry()
    us = units(run)
    run.rule = ("BFS to closure over {step(a) for every unknown a, unstep(a) for EVERY revealed a (not only the last), reset} on the real ICG_Gym with "
                "a scripted hidden-game generator (states = whole env object, deep-copied; model state = (hidden game, revealed set)); n=3: all 8 "
                "knowledge states x every script position, n=4: all 1024; every registered computer matching the family x four gap functions x "
                "budgets None/1/2/3(/10), and environments with more coalitions known from the start; after every transition ALL observables and the call's return value are compared with the reference env O5. "
                "non-trivial = distinct model states")
    run.bounds = {"n": [3, 4, 5, 6, 7], "configurations": len(us), "n5_depth": 3}
    run.assumptions = ["observation positions of (nearly) additive hidden games are compared with the library's own normalised copy (normalisation is C15's)",
                       "float hidden games: bounds within the G2 tolerance, gaps within 64*2^n*n*2^-53*scale"]
    run.add(fanout(unit, sorted(us, key=lambda u: -cost(u)), chunk=1))


def replay(doc: dict):
    if doc.get("engine") == "instance":
        st = instance_unit(("instance", doc["n"], doc["generator"], doc["computer"], doc["gap"], doc["gen_seed"]))
        msgs = [v["message"] for v in st.violations]
        return bool(msgs), "; ".join(msgs[:2]) if msgs else "environments of one ModelInstance are independent on this history"
    return replay_env(doc)
