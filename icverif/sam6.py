"""WC6 — a complete family of 6-player weighted-coverage games on which the REPETITIONS of the approximate SAM computer matter.

For n <= 4 a repetition never changes a bound (measured: 0 of 418 816 (game, K) pairs of A4-SAM), and random 5/6-player SAM games
almost never do (about 1 in 2 000), so the clauses of C04/C07/C08 that speak about repetitions and about recomputation on a
long-lived object are vacuous on the small lattices. In this family - two group triples with weights in {1,3}, optionally one
single-player group of weight 3 - with the knowledge "minimal information + two triples that overlap in exactly one player", one
instance in 235 is repetition-sensitive (all of them in the sub-family where the player outside both known triples has its own group).
Fixing the two known triples loses nothing: the family of games is closed under relabelling the players.
"""
from __future__ import annotations

import itertools

from .alphabets import kmask, minimal_ids, popcount

N = 6
KNOWN_A, KNOWN_B = 0b000111, 0b011100          # {0,1,2} and {2,3,4}: overlap in player 2; player 5 is outside both
OUTSIDE = 5


def base_knowledge() -> int:
    return kmask(minimal_ids(N)) | 1 << KNOWN_A | 1 << KNOWN_B


def family(dense_only: bool):
    """(tag, values). dense_only: the sub-family in which the outside player carries a group of weight 3 (570 games)."""
    triples = [s for s in range(1 << N) if popcount(s) == 3]
    for g1, g2 in itertools.combinations(triples, 2):
        for w in ((1, 1), (1, 3), (3, 1)):
            for single in ([OUTSIDE] if dense_only else [None] + list(range(N))):
                groups = [g1, g2] + ([1 << single] if single is not None else [])
                weights = list(w) + ([3] if single is not None else [])
                v = tuple(float(-sum(x for g, x in zip(groups, weights) if s & g)) for s in range(1 << N))
                yield f"wc6:{g1}:{g2}:{w[0]}{w[1]}:{single}", v


def probe_coalitions() -> list[int]:
    """Further coalitions revealed on top of the base knowledge (spread over sizes and over membership of the outside player)."""
    return [0b100001, 0b110000, 0b001010, 0b100110, 0b111000, 0b101011, 0b011110, 0b111101]


# ----------------------------------------------------------------------------- WC7
N7 = 7
K7_A, K7_B = 0b0010011, 0b0011100          # {0,1,4} and {2,3,4}


def base_knowledge7() -> int:
    return kmask(minimal_ids(N7)) | 1 << K7_A | 1 << K7_B


def family7():
    """7 players: one group of five players and one single-player group for each of the two others, weights in {1,3}; all 21 choices of
    the big group (closed under relabelling, so fixing the two known triples loses nothing). On these games an improvement made by a
    later repetition is BINDING for an upper bound (v(T) - lower(T \\ S) with T = N)."""
    for big in (s for s in range(1 << N7) if popcount(s) == 5):
        outs = [i for i in range(N7) if not big >> i & 1]
        for w in itertools.product((1, 3), repeat=3):
            groups = [big, 1 << outs[0], 1 << outs[1]]
            v = tuple(float(-sum(x for g, x in zip(groups, w) if s & g)) for s in range(1 << N7))
            yield f"wc7:{big}:{w[0]}{w[1]}{w[2]}", v


def family7_knowledge_variants():
    """The big group fixed to {0..4}, every pair of known triples inside it that overlap in exactly one player (15 pairs) x weights."""
    big = 0b0011111
    triples = [s for s in range(1 << 5) if popcount(s) == 3]
    for a, b in itertools.combinations(triples, 2):
        if popcount(a & b) != 1:
            continue
        for w in itertools.product((1, 3), repeat=3):
            groups = [big, 1 << 5, 1 << 6]
            v = tuple(float(-sum(x for g, x in zip(groups, w) if s & g)) for s in range(1 << N7))
            yield f"wc7k:{a}:{b}:{w[0]}{w[1]}{w[2]}", v, kmask(minimal_ids(N7)) | 1 << a | 1 << b


def sensitive_first(games, every: int = 10):
    """Prioritise: the games of the family on which (under the CURRENT code) a repetition changes a bound at the base knowledge, plus every
    `every`-th other game. The selection only decides where the expensive sub-lattice walk is spent; the verdicts come from the walk."""
    from .lattice import read, run_history
    K = base_knowledge()
    out = []
    for i, (tag, v) in enumerate(games):
        try:
            t0 = read(run_history(N, "sam_apx_0", v, [("reset", K), ("compute",)]))
            t1 = read(run_history(N, "sam_apx_1", v, [("reset", K), ("compute",)]))
            sens = t0.key != t1.key
        except Exception:  # noqa: BLE001 - let the walk report it
            sens = True
        if sens or i % every == 0:
            out.append((tag + (":sensitive" if sens else ""), v))
    return out


def sublattice(st, v, comp: str, checker, tag: str):
    """The 16-point sub-lattice spanned by the two known triples and two probe coalitions: fresh tables + Euler walk on ONE object."""
    from .lattice import LatticeRun
    lr = LatticeRun(N, v, comp, checker, st, tag, explor=(KNOWN_A, KNOWN_B, 0b100001, 0b101011))
    lr.scribble = False
    lr.fresh()
    lr.edges_from_tables()
    lr.euler()
    return lr


def star(st, v, comp: str, checker, tag: str, probes, compare_canonical: bool):
    """ONE long-lived object: minimal -> +A -> +B (computing after each), then for every probe coalition S: reveal S, compute,
    un-reveal S, compute. Every reveal edge goes to checker.edge; with compare_canonical every clean table is compared with the table
    of a fresh object holding the same knowledge."""
    from .lattice import apply_op, new_game, read, run_history
    from .alphabets import kmask_ids
    base = kmask(minimal_ids(N))
    hist = [("reset", base), ("compute",), ("reveal", KNOWN_A), ("compute",), ("reveal", KNOWN_B), ("compute",)]
    g = new_game(N, comp)

    def viol(msg, h, **kw):
        st.violation(f"[{comp} n={N} {tag}] {msg}", engine="lattice", n=N, computer=comp, values=list(v), tag=tag, history=[list(o) for o in h], **kw)

    try:
        tabs = []
        for i, op in enumerate(hist):
            apply_op(g, v, op)
            if op[0] == "compute":
                tabs.append(read(g))
                st.states += 1
        st.transitions += len(hist)
        for (t0, t1, s) in ((tabs[0], tabs[1], KNOWN_A), (tabs[1], tabs[2], KNOWN_B)):
            msg = checker.edge(t0.k, t0, s, t1.k, t1, "star")
            st.evals += 1
            if msg:
                viol(msg, hist, S=s)
        tb = tabs[2]
        K = tb.k
        for s in probes:
            if K >> s & 1:
                continue
            h2 = hist + [("reveal", s), ("compute",)]
            apply_op(g, v, ("reveal", s))
            apply_op(g, v, ("compute",))
            t1 = read(g)
            st.transitions += 2
            st.states += 1
            st.evals += 1
            msg = checker.edge(K, tb, s, t1.k, t1, "star")
            if msg:
                viol(msg, h2, S=s, K=kmask_ids(K))
            if compare_canonical:
                c = read(run_history(N, comp, v, [("reset", t1.k), ("compute",)]))
                st.traces += 1
                if c.key != t1.key:
                    viol(f"path dependence: table at K={kmask_ids(t1.k)} on a long-lived object differs from a fresh object's "
                         f"(got lower={t1.lo.tolist()}; fresh lower={c.lo.tolist()})", h2, K=kmask_ids(t1.k), expect_canonical=True)
            apply_op(g, v, ("unreveal", s))
            apply_op(g, v, ("compute",))
            t_back = read(g)
            st.transitions += 2
            if compare_canonical and t_back.key != tb.key:
                viol(f"reveal {s}; compute; un-reveal {s}; compute does not restore the table at K={kmask_ids(K)}", h2 + [("unreveal", s), ("compute",)],
                     K=kmask_ids(K))
            if st.nviol >= 3:
                return
            hist = h2 + [("unreveal", s), ("compute",)] if len(hist) < 40 else hist
            tb = t_back
    except Exception as e:  # noqa: BLE001
        viol(f"operation raised {type(e).__name__}: {e}", hist)
