"""./check <ID> [--tier quick|thorough] [--replay FILE]."""
from __future__ import annotations

import argparse
import importlib
import json
import os
import sys
import traceback

from . import use_repo
from .core import HarnessError, Run


# checks that are cheap enough to be run a second time under `python -O` (assert statements stripped): a configuration of the
# interpreter under which the library must behave the same
OPTIMISED_PASS = ("C05", "C06", "C15", "C16", "C17", "C18", "C19")


def optimised_pass(run: Run, pid: str, tier: str) -> None:
    import subprocess
    env = dict(os.environ)
    env.pop("PYTHONOPTIMIZE", None)
    try:
        out = subprocess.run([sys.executable, "-O", "-W", "ignore", "-m", "icverif.cli", pid, "--tier", tier, "--child-json"], capture_output=True, text=True,
                             env=env, timeout=3600)
    except Exception as e:  # noqa: BLE001
        raise HarnessError(f"python -O pass could not run: {e}")
    line = next((ln for ln in out.stdout.splitlines() if ln.startswith("ICVERIF-CHILD-JSON ")), None)
    if line is None:
        raise HarnessError(f"python -O pass gave no summary (exit {out.returncode}): {out.stderr[-400:]}")
    summ = json.loads(line[len("ICVERIF-CHILD-JSON "):])
    run.stats.count("python_O_pass_states", summ["states"])
    run.stats.count("python_O_pass_transitions", summ["transitions"])
    run.stats.note("the whole check was run a second time under `python -O` (assert statements stripped)")
    for v in summ["violations"]:
        msg = v.pop("message", "")
        run.stats.violation("[python -O] " + msg, python_O=True, **v)
    run.stats.nviol += max(0, summ["nviol"] - len(summ["violations"]))


def main(argv: list[str] | None = None) -> int:
    ap = argparse.ArgumentParser(prog="check")
    ap.add_argument("property")
    ap.add_argument("--tier", choices=["quick", "thorough"], default=os.environ.get("VERIF_TIER") or "quick")
    ap.add_argument("--replay", default=None)
    ap.add_argument("--child-json", action="store_true", help="internal: second pass under python -O, prints a JSON summary, writes no evidence")
    args = ap.parse_args(argv)
    pid = args.property.upper()
    try:
        seed = int(os.environ.get("VERIF_SEED", "0") or 0)
    except ValueError:
        seed = 0
    use_repo()
    try:
        mod = importlib.import_module(f"icverif.props.{pid.lower()}")
    except ModuleNotFoundError as e:
        if e.name and e.name.startswith("icverif.props"):
            print(f"unknown property {pid}", file=sys.stderr)
            return 2
        raise
    try:
        if args.replay:
            doc = json.load(open(args.replay, encoding="utf-8"))
            if doc.get("python_O") and not sys.flags.optimize:      # found under `python -O`: replay under the same interpreter configuration
                os.execv(sys.executable, [sys.executable, "-O", "-W", "ignore", "-m", "icverif.cli", pid, "--replay", args.replay])
            reproduced, text = mod.replay(doc)
            print(text)
            print(f"[{pid}] replay of {args.replay}: {'VIOLATION REPRODUCED' if reproduced else 'not reproduced (property holds on this history)'}")
            return 1 if reproduced else 0
        run = Run(pid, args.tier, seed)
        mod.run(run)
        if args.child_json:
            from .core import jsonable
            print("ICVERIF-CHILD-JSON " + json.dumps({"states": run.stats.states, "transitions": run.stats.transitions, "nviol": run.stats.nviol,
                                                      "violations": jsonable(run.stats.violations[:6])}))
            return 0
        if pid in OPTIMISED_PASS and not sys.flags.optimize:
            optimised_pass(run, pid, args.tier)
        return run.finish()
    except HarnessError as e:
        print(f"HARNESS ERROR in {pid}: {e}", file=sys.stderr)
        return 2
    except Exception:  # noqa: BLE001
        print(f"HARNESS ERROR in {pid}:\n{traceback.format_exc()}", file=sys.stderr)
        return 2


if __name__ == "__main__":
    sys.exit(main())
