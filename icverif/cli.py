"""./check <ID> [--tier quick|thorough] [--replay FILE]."""
from __future__ import annotations

import argparse
import importlib
import json
import os
import sys
import traceback

from . import use_repo
from .core import HarnessError, Run


def main(argv: list[str] | None = None) -> int:
    ap = argparse.ArgumentParser(prog="check")
    ap.add_argument("property")
    ap.add_argument("--tier", choices=["quick", "thorough"], default=os.environ.get("VERIF_TIER") or "quick")
    ap.add_argument("--replay", default=None)
    args = ap.parse_args(argv)
    pid = args.property.upper()
    try:
        seed = int(os.environ.get("VERIF_SEED", "0") or 0)
    except ValueError:
        seed = 0
    use_repo()
    try:
        mod = importlib.import_module(f"icverif.props.{pid.lower()}")
    except ModuleNotFoundError as e:
        if e.name and e.name.startswith("icverif.props"):
            print(f"unknown property {pid}", file=sys.stderr)
            return 2
        raise
    try:
        if args.replay:
            doc = json.load(open(args.replay, encoding="utf-8"))
            reproduced, text = mod.replay(doc)
            print(text)
            print(f"[{pid}] replay of {args.replay}: {'VIOLATION REPRODUCED' if reproduced else 'not reproduced (property holds on this history)'}")
            return 1 if reproduced else 0
        run = Run(pid, args.tier, seed)
        mod.run(run)
        return run.finish()
    except HarnessError as e:
        print(f"HARNESS ERROR in {pid}: {e}", file=sys.stderr)
        return 2
    except Exception:  # noqa: BLE001
        print(f"HARNESS ERROR in {pid}:\n{traceback.format_exc()}", file=sys.stderr)
        return 2


if __name__ == "__main__":
    sys.exit(main())
