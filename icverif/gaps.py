"""The four offered gap functions (real code) and their first-principles oracle O4."""
from __future__ import annotations

import math
from fractions import Fraction

from . import use_repo
from . import oracles as O

use_repo()

NAMES = ("exploitability", "l1_norm", "l2_norm", "linf_norm")
_REG = None


def registry(full: bool = False) -> dict:
    """name -> callable. full=True reads the CLI registry (imports torch, ~3 s); otherwise the defining modules."""
    global _REG
    if _REG is None or (full and not _REG.get("__full__")):
        if full:
            from incomplete_cooperative.run.model import GAP_FUNCTIONS
            _REG = dict(GAP_FUNCTIONS)
            _REG["__full__"] = True
        else:
            from incomplete_cooperative import norms
            from incomplete_cooperative.exploitability import compute_exploitability
            _REG = {"exploitability": compute_exploitability, "l1_norm": norms.l1_norm, "l2_norm": norms.l2_norm,
                    "linf_norm": norms.linf_norm}
    return _REG


_BINOM: dict = {}


def oracle(name: str, lo, up, n: int, exact_inputs: bool = False) -> float:
    """Exact value (rounded once) of the gap from lower / upper vectors.

    exact_inputs=True: the entries are small integers / dyadics, so float sums and squares are exact and the
    (much faster) float path gives the same l1 / l-infinity / sum of squares as rational arithmetic."""
    if exact_inputs:
        w = [float(u) - float(l) for l, u in zip(lo, up)]
        if name == "exploitability":
            b = _BINOM.get(n)
            if b is None:
                b = _BINOM[n] = [math.comb(n, bin(s).count("1")) for s in range(1 << n)]
            return math.fsum(x / c for x, c in zip(w, b))
        if name == "l1_norm":
            return sum(abs(x) for x in w)
        if name == "linf_norm":
            return max(abs(x) for x in w)
        if name == "l2_norm":
            return math.sqrt(sum(x * x for x in w))
    if name == "exploitability":
        return float(O.gap_exploitability(lo, up, n))
    if name == "l1_norm":
        return float(O.gap_l1(lo, up))
    if name == "linf_norm":
        return float(O.gap_linf(lo, up))
    if name == "l2_norm":
        return math.sqrt(float(O.gap_l2sq(lo, up)))
    raise KeyError(name)


def tol_for(name: str, lo, up, n: int, exact_inputs: bool) -> float:
    scale = max([1.0] + [abs(float(x)) for x in lo] + [abs(float(x)) for x in up])
    if name in ("l1_norm", "linf_norm") and exact_inputs:
        return 0.0
    return 64 * (1 << n) * 2.0 ** -53 * scale * max(1, n)
