"""Identity-free canonical digest of an object graph (used to make state de-duplication sensitive to hidden object state)."""
from __future__ import annotations

import numpy as np


def deep_digest(x, depth: int = 0, seen: set | None = None):
    """Identity-free canonical form of an object graph (pickle bytes depend on object sharing, this does not)."""
    if depth > 6:
        return "..."
    if isinstance(x, np.ndarray):
        a = x + 0.0 if x.dtype.kind == "f" else x
        return ("nd", str(x.dtype), x.shape, a.tobytes() if x.dtype != object else tuple(deep_digest(e, depth + 1) for e in x.ravel()))
    if isinstance(x, (np.generic,)):
        return ("np", repr(x.item() + 0.0 if isinstance(x, np.floating) else x.item()))
    if isinstance(x, (int, float, str, bool, bytes, type(None))):
        return repr(x + 0.0) if isinstance(x, float) else repr(x)
    if isinstance(x, dict):
        return ("dict", tuple(sorted((repr(k), deep_digest(v, depth + 1)) for k, v in x.items())))
    if isinstance(x, (list, tuple)):
        return (type(x).__name__, tuple(deep_digest(e, depth + 1) for e in x))
    if isinstance(x, (set, frozenset)):
        return ("set", tuple(sorted(repr(deep_digest(e, depth + 1)) for e in x)))
    if callable(x) and not hasattr(x, "__dict__"):
        return ("callable", getattr(x, "__qualname__", type(x).__name__))
    d = getattr(x, "__dict__", None)
    if d is not None:
        return (type(x).__name__, deep_digest({k: v for k, v in d.items() if not callable(v) or hasattr(v, "__dict__")}, depth + 1))
    return ("obj", type(x).__name__)


