"""The registered generators as *configuration items*: names, classes, seed windows (DESIGN §4 GEN(W))."""
from __future__ import annotations

from . import use_repo

use_repo()

# families whose consumers assume superadditive AND monotone non-increasing
SAM_PREFIXES = ("xos", "xs", "oxs", "k_budget_generator", "covg_fn_generator")
# documented exceptions that ignore the supplied random generator
UNSEEDED_PREFIXES = ("graph_tirangular", "graph_increasing", "graph_decreasing", "graph_beta_", "graph_03_03",
                     "graph_poiss_", "predictible_factory")
UNSEEDED_EXACT = ("graph",)
SKIP = ("convex",)


def names() -> list[str]:
    from incomplete_cooperative.generators import GENERATORS
    return [k for k in GENERATORS if k not in SKIP]


def is_sam_family(name: str) -> bool:
    return name.startswith(SAM_PREFIXES)


def is_unseeded(name: str) -> bool:
    return name in UNSEEDED_EXACT or name.startswith(UNSEEDED_PREFIXES)


def draw_game(name: str, n: int, seed: int):
    import numpy as np
    from incomplete_cooperative.generators import GENERATORS
    return GENERATORS[name](n, np.random.default_rng(seed))


def draw(name: str, n: int, seed: int) -> tuple:
    """Values of one generated game as a tuple of Python floats."""
    return tuple(float(x) for x in draw_game(name, n, seed).get_values())


def seed_window(seed: int, width: int) -> range:
    return range(width * seed, width * seed + width)


# a spread of seeded families used where "one per family" is called for
SA_FAMILIES = ("factory", "factory_square", "noisy_factory", "noisy_factory_exp", "factory_cheerleader_next",
               "graph_random", "graph_cycle", "graph_geometric", "xos", "xs", "oxs", "k_budget_generator",
               "covg_fn_generator")
SAM_FAMILIES = ("xos", "xos2", "xos12_norm_additive", "xs", "xs3", "oxs", "k_budget_generator", "covg_fn_generator")


def float_tol(v, n: int) -> float:
    """G2: forward-error tolerance 64*n*2^-53*scale, scale = sum |singletons| + max |v|."""
    scale = sum(abs(v[1 << i]) for i in range(n)) + max(abs(x) for x in v)
    return 64 * n * 2.0 ** -53 * max(scale, 1e-300)
