"""Runner plumbing: statistics, violations, evidence, replay artefacts, known findings, fan-out."""
from __future__ import annotations

import hashlib
import json
import multiprocessing
import os
import sys
import time
import traceback
from concurrent.futures import ProcessPoolExecutor
from typing import Any, Callable, Iterable

from . import VERIF

EVIDENCE_DIR = os.path.join(VERIF, "evidence")
REPLAY_DIR = os.path.join(VERIF, "replays")
FINDINGS_FILE = os.path.join(VERIF, "known_findings.txt")

MAX_KEPT_VIOLATIONS = 12
MAX_SAMPLES = 6


class HarnessError(Exception):
    """The harness (not the code under test) misbehaved: exit 2, never a verdict."""


def jsonable(x: Any) -> Any:
    """Convert numpy / Fraction / bytes / sets into plain JSON values."""
    import fractions

    import numpy as np
    if isinstance(x, dict):
        return {str(k): jsonable(v) for k, v in x.items()}
    if isinstance(x, (list, tuple)):
        return [jsonable(v) for v in x]
    if isinstance(x, (set, frozenset)):
        return sorted(jsonable(v) for v in x)
    if isinstance(x, np.ndarray):
        return jsonable(x.tolist())
    if isinstance(x, (np.bool_,)):
        return bool(x)
    if isinstance(x, np.integer):
        return int(x)
    if isinstance(x, np.floating):
        x = float(x)
    if isinstance(x, float):
        if x != x:
            return "NaN"
        if x in (float("inf"), float("-inf")):
            return "Infinity" if x > 0 else "-Infinity"
        return x
    if isinstance(x, fractions.Fraction):
        return float(x) if x.denominator != 1 else int(x)
    if isinstance(x, bytes):
        return x.hex()
    if isinstance(x, (str, int, bool)) or x is None:
        return x
    return repr(x)


def _viol_size(v: dict) -> tuple:
    """Smallest counterexample first: fewer players, shorter history."""
    h = v.get("history")
    return (v.get("n", 99) if isinstance(v.get("n"), int) else 99, len(h) if isinstance(h, list) else 0)


class Stats:
    """Mergeable coverage statistics of (part of) a run."""

    def __init__(self) -> None:
        self.states = 0
        self.transitions = 0
        self.traces = 0          # histories replayed on a fresh real object / real pool / real kill
        self.evals = 0           # oracle evaluations
        self.nontrivial = 0      # distinct & non-trivial cases by the property's rule
        self.violations: list[dict] = []
        self.nviol = 0
        self.samples: list[Any] = []
        self.counters: dict[str, int] = {}
        self.outcomes: set = set()
        self.caps: list[str] = []
        self.notes: list[str] = []

    def count(self, key: str, by: int = 1) -> None:
        self.counters[key] = self.counters.get(key, 0) + by

    def sample(self, s: Any) -> None:
        if len(self.samples) < MAX_SAMPLES:
            self.samples.append(jsonable(s))

    def violation(self, message: str, **doc: Any) -> None:
        """Record a violation together with everything needed to replay it."""
        self.nviol += 1
        if len(self.violations) < MAX_KEPT_VIOLATIONS:
            d = {"message": message}
            d.update(doc)
            self.violations.append(jsonable(d))

    def cap(self, text: str) -> None:
        if text not in self.caps:
            self.caps.append(text)

    def note(self, text: str) -> None:
        if text not in self.notes:
            self.notes.append(text)

    def merge(self, other: "Stats") -> "Stats":
        self.states += other.states
        self.transitions += other.transitions
        self.traces += other.traces
        self.evals += other.evals
        self.nontrivial += other.nontrivial
        self.nviol += other.nviol
        if other.violations:
            self.violations = sorted(self.violations + other.violations, key=_viol_size)[:MAX_KEPT_VIOLATIONS]
        for s in other.samples:
            if len(self.samples) < MAX_SAMPLES:
                self.samples.append(s)
        for k, v in other.counters.items():
            self.counters[k] = self.counters.get(k, 0) + v
        if len(self.outcomes) < 100000:
            self.outcomes |= other.outcomes
        for c in other.caps:
            self.cap(c)
        for c in other.notes:
            self.note(c)
        return self


def guarded(stats: Stats, what: str, fn: Callable, *args: Any, doc: dict | None = None, **kw: Any) -> tuple[bool, Any]:
    """Run code under test; an exception it raises is a violation (the operation was legal)."""
    try:
        return True, fn(*args, **kw)
    except HarnessError:
        raise
    except Exception as e:  # noqa: BLE001 - anything the library raises on a legal call
        tb = traceback.extract_tb(e.__traceback__)
        where = [f"{os.path.basename(f.filename)}:{f.lineno}:{f.name}" for f in tb[-4:]]
        stats.violation(f"{what} raised {type(e).__name__}: {e}", where=where, **(doc or {}))
        return False, None


# ----------------------------------------------------------------------------- fan-out

def _run_unit(args: tuple) -> Stats:
    func, unit = args
    try:
        return func(unit)
    except HarnessError:
        raise
    except Exception as e:  # a harness bug inside a worker must not look like a verdict
        raise HarnessError(f"worker failed on unit {str(unit)[:200]}: {type(e).__name__}: {e}\n{traceback.format_exc()}")


def fanout(func: Callable[[Any], Stats], units: Iterable[Any], procs: int | None = None,
           chunk: int = 1) -> Stats:
    """Run func(unit) for every unit on a non-daemonic fork pool and merge the statistics."""
    units = list(units)
    total = Stats()
    if not units:
        return total
    procs = procs or min(16, os.cpu_count() or 1)
    if procs <= 1 or len(units) == 1:
        for u in units:
            total.merge(_run_unit((func, u)))
        return total
    ctx = multiprocessing.get_context("fork")
    with ProcessPoolExecutor(max_workers=min(procs, len(units)), mp_context=ctx) as ex:
        for st in ex.map(_run_unit, [(func, u) for u in units], chunksize=chunk):
            total.merge(st)
    return total


def fresh_forks(func: Callable[[Any], Stats], units: Iterable[Any], procs: int = 12) -> Stats:
    """Run every unit in its OWN process forked directly from this (pristine) process, so that module-level state of the
    code under test left behind by one unit can never reach another (the ordinary fan-out reuses worker processes)."""
    import pickle
    units = list(units)
    total = Stats()
    running: dict[int, tuple] = {}
    it = iter(units)

    def reap(block: bool) -> None:
        for pid in list(running):
            r, unit = running[pid]
            done = os.waitpid(pid, 0 if block else os.WNOHANG)
            if done[0] == 0:
                continue
            with os.fdopen(r, "rb") as f:
                data = f.read()
            del running[pid]
            if not data:
                raise HarnessError(f"forked unit {str(unit)[:120]} died without a result (exit status {done[1]})")
            kind, payload = pickle.loads(data)
            if kind == "err":
                raise HarnessError(f"forked unit {str(unit)[:120]} failed: {payload}")
            total.merge(payload)
            if block:
                return

    for unit in it:
        while len(running) >= procs:
            reap(True)
        r, w = os.pipe()
        pid = os.fork()
        if pid == 0:
            os.close(r)
            try:
                out = ("ok", func(unit))
            except BaseException:  # noqa: BLE001
                out = ("err", traceback.format_exc())
            with os.fdopen(w, "wb") as f:
                f.write(pickle.dumps(out))
            os._exit(0)
        os.close(w)
        running[pid] = (r, unit)
    while running:
        reap(True)
    return total


# ----------------------------------------------------------------------------- findings

def load_findings(pid: str) -> tuple[list[dict], list[str]]:
    known, fixed = [], []
    if os.path.exists(FINDINGS_FILE):
        for line in open(FINDINGS_FILE, encoding="utf-8"):
            line = line.strip()
            if not line or line.startswith("#"):
                continue
            if line.startswith("known:") and f"property={pid} " in line:
                rest = line[len("known:"):].strip()
                parts = rest.split()
                matcher = next((p.split("=", 1)[1] for p in parts if p.startswith("matcher=")), "")
                text = " ".join(p for p in parts if not p.startswith("property=") and not p.startswith("matcher="))
                known.append({"matcher": matcher, "text": text})
            elif line.startswith("fixed:") and f"property={pid} " in line:
                fixed.append(line)
    return known, fixed


# ----------------------------------------------------------------------------- evidence / verdict

class Run:
    """One invocation of one property's check."""

    def __init__(self, pid: str, tier: str, seed: int) -> None:
        self.pid = pid
        self.tier = tier
        self.seed = seed
        self.t0 = time.time()
        self.stats = Stats()
        self.rule = ""
        self.bounds: dict[str, Any] = {}
        self.assumptions: list[str] = []
        self.exhaustive = True
        self.extra: dict[str, Any] = {}
        self.known, self.fixed = load_findings(pid)
        self.known_hits: list[str] = []

    @property
    def quick(self) -> bool:
        return self.tier == "quick"

    def add(self, st: Stats) -> None:
        self.stats.merge(st)

    def known_finding(self, matcher: str, detail: str) -> bool:
        """Report a violation that a committed known-findings entry identifies. Returns False if not listed."""
        for k in self.known:
            if k["matcher"] == matcher:
                line = f"KNOWN-FINDING: property={self.pid} {k['text']} [{detail}]"
                if line not in self.known_hits:
                    self.known_hits.append(line)
                return True
        return False

    def finish(self) -> int:
        st = self.stats
        os.makedirs(EVIDENCE_DIR, exist_ok=True)
        paths = []
        if st.violations:
            os.makedirs(REPLAY_DIR, exist_ok=True)
            for v in st.violations:
                doc = {"property": self.pid, "tier": self.tier, "seed": self.seed}
                doc.update(v)
                blob = json.dumps(doc, sort_keys=True, indent=1)
                h = hashlib.sha1(blob.encode()).hexdigest()[:12]
                p = os.path.join(REPLAY_DIR, f"{self.pid}-{h}.json")
                with open(p, "w", encoding="utf-8") as f:
                    f.write(blob)
                paths.append((p, v.get("message", "")))
        if st.caps:
            self.exhaustive = False
        if st.traces == 0 and st.states > 0:
            # the check drives the implementation directly (no separate model whose traces would need replaying):
            # every explored input/state WAS produced by running the real code
            st.traces = st.states
            st.note("no separate model: every explored case is itself an execution of the real implementation (traces = states)")
        cov = {
            "states": st.states,
            "transitions": st.transitions,
            "traces_validated_against_impl": st.traces,
            "evaluations": st.evals,
            "distinct_nontrivial": st.nontrivial,
            "distinct_outcomes": len(st.outcomes),
            "rule": self.rule,
            "samples": st.samples or [{"note": "no sample recorded"}],
            "exhaustive": self.exhaustive,
            "bounds": jsonable(self.bounds),
            "caps_hit": st.caps,
            "counters": st.counters,
            "notes": st.notes,
            "known_findings_reported": self.known_hits,
        }
        cov.update(jsonable(self.extra))
        ev = {
            "property_id": self.pid,
            "tier": self.tier,
            "seed": self.seed,
            "level": "model_checking",
            "coverage": cov,
            "assumptions": self.assumptions,
            "wall_s": round(time.time() - self.t0, 3),
            "violations": st.nviol,
        }
        tmp = os.path.join(EVIDENCE_DIR, f".{self.pid}.json.tmp")
        with open(tmp, "w", encoding="utf-8") as f:
            json.dump(ev, f, indent=1, sort_keys=True)
        os.replace(tmp, os.path.join(EVIDENCE_DIR, f"{self.pid}.json"))
        for line in self.known_hits:
            print(line)
        print(f"[{self.pid}] tier={self.tier} seed={self.seed} states={st.states} transitions={st.transitions} "
              f"traces={st.traces} evals={st.evals} nontrivial={st.nontrivial} outcomes={len(st.outcomes)} "
              f"exhaustive={self.exhaustive} violations={st.nviol} wall={ev['wall_s']}s")
        if st.caps:
            print(f"[{self.pid}] caps hit: {st.caps}")
        if paths:
            for p, msg in paths:
                print(f"VIOLATION property={self.pid} replay={p}")
                print(f"    {msg[:300]}")
            if st.nviol > len(paths):
                print(f"[{self.pid}] ... {st.nviol - len(paths)} further violations not written out")
            sys.stdout.flush()
            return 1
        sys.stdout.flush()
        return 0
