"""Finite input alphabets, each defined by a rule and enumerated completely (DESIGN §4).

A game is a tuple of 2^n numbers indexed by coalition id (bit i = player i), v[0] == 0.
Nothing here imports the code under test.
"""
from __future__ import annotations

import itertools
from functools import lru_cache


def popcount(x: int) -> int:
    return bin(x).count("1")


@lru_cache(maxsize=None)
def ids_by_size(n: int) -> tuple[int, ...]:
    return tuple(sorted(range(1 << n), key=lambda s: (popcount(s), s)))


@lru_cache(maxsize=None)
def proper_splits(s: int) -> tuple[tuple[int, int], ...]:
    """All unordered splits of s into two non-empty disjoint parts (a, s^a) with a < s^a."""
    out = []
    a = (s - 1) & s
    while a:
        b = s ^ a
        if a < b:
            out.append((a, b))
        a = (a - 1) & s
    return tuple(out)


@lru_cache(maxsize=None)
def proper_nonempty_subsets(s: int) -> tuple[int, ...]:
    out = []
    a = (s - 1) & s
    while a:
        out.append(a)
        a = (a - 1) & s
    return tuple(out)


def minimal_ids(n: int) -> tuple[int, ...]:
    return tuple(sorted({0, (1 << n) - 1} | {1 << i for i in range(n)}))


def explorable_ids(n: int) -> tuple[int, ...]:
    m = set(minimal_ids(n))
    return tuple(s for s in range(1 << n) if s not in m)


def is_superadditive(v) -> bool:
    for s in range(1, len(v)):
        for a, b in proper_splits(s):
            if v[a] + v[b] > v[s]:
                return False
    return True


def is_monotone_nonincreasing(v) -> bool:
    for s in range(1, len(v)):
        for a in proper_nonempty_subsets(s):
            if v[a] < v[s]:
                return False
    return True


def enumerate_games(n: int, values: tuple, superadditive: bool = True, monotone: bool = False,
                    singleton_values: tuple | None = None):
    """All games v on n players with v(empty)=0, values in `values`, satisfying the constraints.

    DFS over coalitions by increasing size; a constraint is checked as soon as its largest
    coalition is assigned, so every emitted game satisfies every constraint and none is missed.
    """
    order = [s for s in ids_by_size(n) if s]
    v = [0] * (1 << n)

    def rec(i: int):
        if i == len(order):
            yield tuple(v)
            return
        s = order[i]
        cand = singleton_values if (singleton_values is not None and popcount(s) == 1) else values
        for x in cand:
            ok = True
            if superadditive:
                for a, b in proper_splits(s):
                    if v[a] + v[b] > x:
                        ok = False
                        break
            if ok and monotone:
                for a in proper_nonempty_subsets(s):
                    if v[a] < x:
                        ok = False
                        break
            if ok:
                v[s] = x
                yield from rec(i + 1)
        v[s] = 0

    yield from rec(0)


@lru_cache(maxsize=None)
def a3_sa(vals: tuple = (-1, 0, 1, 2)) -> tuple:
    """A3-SA: all superadditive 3-player games with values in vals (1 276 for {-1,0,1,2})."""
    return tuple(enumerate_games(3, vals, True, False))


@lru_cache(maxsize=None)
def a3_any(vals: tuple = (-1, 0, 1)) -> tuple:
    """A3-ANY: all 3-player games (no class restriction) with values in vals (2 187)."""
    return tuple((0,) + t for t in itertools.product(vals, repeat=7))


@lru_cache(maxsize=None)
def a3_sam(vals: tuple = (-3, -2, -1, 0)) -> tuple:
    return tuple(enumerate_games(3, vals, True, True))


@lru_cache(maxsize=None)
def a4_sam(vals: tuple = (-2, -1, 0)) -> tuple:
    return tuple(enumerate_games(4, vals, True, True))


def closure_rule_games(n: int, deltas: tuple = (0, 1), pair_vals: tuple | None = None):
    """Singletons 0; every larger coalition = (best two-part split of already fixed values) + delta.

    pair_vals overrides the alphabet of the pairs. All games produced are superadditive by construction.
    """
    order = [s for s in ids_by_size(n) if popcount(s) >= 2]
    v = [0] * (1 << n)

    def rec(i: int):
        if i == len(order):
            yield tuple(v)
            return
        s = order[i]
        base = max(v[a] + v[b] for a, b in proper_splits(s))
        cand = pair_vals if (pair_vals is not None and popcount(s) == 2) else deltas
        for d in cand:
            v[s] = base + d
            yield from rec(i + 1)
        v[s] = 0

    yield from rec(0)


def relabel(v: tuple, perm: tuple) -> tuple:
    """Game with players renamed: new player perm[i] plays the role of old player i."""
    n = len(perm)
    out = [0] * len(v)
    for s in range(len(v)):
        t = 0
        for i in range(n):
            if s >> i & 1:
                t |= 1 << perm[i]
        out[t] = v[s]
    return tuple(out)


@lru_cache(maxsize=None)
def a4_sa_full(pair_vals: tuple | None = None) -> tuple:
    """A4-SA(t): the closure-rule games on 4 players (2 048; 23 328 with pairs in {0,1,2})."""
    return tuple(closure_rule_games(4, (0, 1), pair_vals))


@lru_cache(maxsize=None)
def a4_sa_reps(seed: int = 0) -> tuple:
    """A4-SA(q): one representative per relabelling class of A4-SA(t), relabelled by a seed-derived permutation."""
    perms = list(itertools.permutations(range(4)))
    seen = set()
    reps = []
    for g in a4_sa_full():
        if g in seen:
            continue
        orbit = {relabel(g, p) for p in perms}
        seen |= orbit
        reps.append(min(orbit))
    p = perms[seed % len(perms)]
    return tuple(relabel(g, p) for g in reps)


def shifted(v: tuple, add: tuple) -> tuple:
    """v + additive game with singleton values `add` (stays superadditive; non-zero-normalised, may be negative)."""
    n = len(add)
    return tuple(v[s] + sum(add[i] for i in range(n) if s >> i & 1) for s in range(len(v)))


def scaled(v: tuple, factor: float) -> tuple:
    return tuple(x * factor for x in v)


ADD3 = (1, -1, 2)
ADD4 = (1, -1, 2, 0)


def with_shifts(games, n: int):
    """Each game, its additive shift and its dyadic copy v/4 (all exactly representable)."""
    add = ADD3 if n == 3 else ADD4 if n == 4 else tuple((1, -1, 2, 0, 3, -2, 1, 0)[:n])
    for g in games:
        yield ("plain", g)
        yield ("shift", shifted(g, add))
        yield ("dyadic", scaled(g, 0.25))


BIG = float(2 ** 20)
TINY = 2.0 ** -30


def with_scales(games, n: int):
    """Value-scale variants (all exactly representable): a huge additive part with a small surplus on top, and tiny units."""
    add = tuple(BIG * x for x in (1, -1, 2, 0, 3, -2, 1, 0, 2, -1)[:n])
    for g in games:
        yield ("bigshift", shifted(g, add))
        yield ("tiny", scaled(g, TINY))


def all_variants(g, n: int):
    return list(with_shifts([g], n)) + list(with_scales([g], n))


def few_knowledge(n: int) -> list:
    """A dozen knowledge sets for large n: minimal, full, minimal + one coalition (six spread ids), two size layers."""
    base = kmask(minimal_ids(n))
    ex = explorable_ids(n)
    full = base | kmask(ex)
    out = [base, full]
    for j in range(6):
        out.append(base | 1 << ex[(j * len(ex)) // 6 + j])
    out.append(base | kmask(c for c in ex if popcount(c) <= 2))
    out.append(base | kmask(c for c in ex if popcount(c) >= n - 1))
    seen, res = set(), []
    for k in out:
        if k not in seen:
            seen.add(k)
            res.append(k)
    return res


def budget_game(n: int, k: int) -> tuple:
    """The K-budget game -min(k, |S|): superadditive, monotone non-increasing, negative."""
    return tuple(float(-min(k, popcount(s))) for s in range(1 << n))


@lru_cache(maxsize=None)
def a4_any_sample() -> tuple:
    """A4-ANY(s): 324 four-player games that are generally NOT superadditive: singletons 1, pairs all 2 / 3-on-even-ids, triples free
    in {2,3,4}, grand coalition in {4,5} (many exact ties between sums of parts and values)."""
    out = []
    triples = [s for s in range(16) if popcount(s) == 3]
    for pat in (0, 1):
        for tv in itertools.product((2, 3, 4), repeat=4):
            for gv in (4, 5):
                v = [0] * 16
                for s in range(1, 16):
                    c = popcount(s)
                    if c == 1:
                        v[s] = 1
                    elif c == 2:
                        v[s] = 2 if (pat == 0 or s % 2) else 3
                    elif c == 3:
                        v[s] = tv[triples.index(s)]
                    else:
                        v[s] = gv
                out.append(tuple(v))
    return tuple(out)


def knowledge_sets(n: int):
    """All knowledge sets (as bitmask over coalition ids) containing the minimal information."""
    ex = explorable_ids(n)
    base = sum(1 << s for s in minimal_ids(n))
    for r in range(len(ex) + 1):
        for comb in itertools.combinations(ex, r):
            yield base | sum(1 << s for s in comb)


def kmask(ids) -> int:
    m = 0
    for s in ids:
        m |= 1 << s
    return m


def kmask_ids(mask: int) -> list[int]:
    out = []
    s = 0
    while mask:
        if mask & 1:
            out.append(s)
        mask >>= 1
        s += 1
    return out


def layered_knowledge(n: int, dist: int = 1):
    """K(n) for n >= 5: Hamming distance <= dist from minimal or from full, plus size-layer sets."""
    ex = explorable_ids(n)
    base = kmask(minimal_ids(n))
    full = (1 << (1 << n)) - 1
    seen = set()
    for r in range(dist + 1):
        for comb in itertools.combinations(ex, r):
            m = kmask(comb)
            for k in (base | m, full & ~m):
                if k not in seen:
                    seen.add(k)
                    yield k
    for s in range(2, n):
        for k in (base | kmask(c for c in ex if popcount(c) <= s), base | kmask(c for c in ex if popcount(c) >= s)):
            if k not in seen:
                seen.add(k)
                yield k
    # a whole size layer INSIDE a sub-universe of players: all s-subsets of U known, for every U with 3 <= |U| <= n (n <= 7)
    if n <= 7:
        for usize in range(3, n + 1):
            for U in itertools.combinations(range(n), usize):
                um = sum(1 << i for i in U)
                for s in range(2, usize):
                    k = base | kmask(c for c in ex if popcount(c) == s and c & ~um == 0)
                    if k not in seen:
                        seen.add(k)
                        yield k


@lru_cache(maxsize=None)
def a5_pair_closure_reps() -> tuple:
    """A5-PC: 5 players, singletons 0, every pair worth 0 or 1, every larger coalition the superadditive closure (best two-part
    split) of the smaller ones; one representative per isomorphism class of the pair graph (34 games)."""
    n = 5
    pairs = [s for s in range(1 << n) if popcount(s) == 2]
    perms = list(itertools.permutations(range(n)))

    def relabel_mask(mask_set, perm):
        out = set()
        for s in mask_set:
            t = 0
            for i in range(n):
                if s >> i & 1:
                    t |= 1 << perm[i]
            out.add(t)
        return frozenset(out)
    seen = set()
    games = []
    for m in range(1 << len(pairs)):
        edges = frozenset(pairs[j] for j in range(len(pairs)) if m >> j & 1)
        if edges in seen:
            continue
        for p in perms:
            seen.add(relabel_mask(edges, p))
        v = [0] * (1 << n)
        for s in ids_by_size(n):
            if popcount(s) == 2:
                v[s] = 1 if s in edges else 0
            elif popcount(s) > 2:
                v[s] = max(v[a] + v[b] for a, b in proper_splits(s))
        games.append(tuple(v))
    return tuple(games)


def pair_closure_game(n: int, edges) -> tuple:
    """Singletons 0, the listed pairs worth 1 (others 0), larger coalitions = superadditive closure (best two-part split)."""
    es = {(1 << a) | (1 << b) for a, b in edges}
    v = [0] * (1 << n)
    for s in ids_by_size(n):
        if popcount(s) == 2:
            v[s] = 1 if s in es else 0
        elif popcount(s) > 2:
            v[s] = max(v[a] + v[b] for a, b in proper_splits(s))
    return tuple(v)


def convex_game(n: int) -> tuple:
    return tuple(popcount(s) * (popcount(s) - 1) // 2 for s in range(1 << n))


SHIFT_LONG = (1, -1, 2, 0, 3, -2, 1, 0, 2, -1)


@lru_cache(maxsize=None)
def larger_n_samples(n: int) -> tuple:
    """A handful of structurally different exact superadditive games on n >= 6 players (matching, path, star, two cliques,
    complete graph closures; shifted by an additive game or added to a convex game)."""
    half = n // 2
    graphs = {
        "matching": [(2 * i, 2 * i + 1) for i in range(half)],
        "path": [(i, i + 1) for i in range(n - 1)],
        "star": [(0, i) for i in range(1, n)],
        "two-cliques": [(a, b) for a in range(half) for b in range(a + 1, half)] + [(a, b) for a in range(half, n) for b in range(a + 1, n)],
        "complete": [(a, b) for a in range(n) for b in range(a + 1, n)],
    }
    out = []
    cv = convex_game(n)
    for i, (name, edges) in enumerate(graphs.items()):
        g = pair_closure_game(n, edges)
        out.append((f"{name}-shift", shifted(g, SHIFT_LONG[:n])))
        if i % 2 == 0:
            out.append((f"{name}+convex", tuple(a + b for a, b in zip(g, cv))))
    return tuple(out)


def distance2_knowledge(n: int, limit: int | None = None):
    """All knowledge sets at Hamming distance exactly 2 from the minimal information (pairs of revealed coalitions)."""
    ex = explorable_ids(n)
    base = kmask(minimal_ids(n))
    k = 0
    for a, b in itertools.combinations(ex, 2):
        yield base | 1 << a | 1 << b
        k += 1
        if limit is not None and k >= limit:
            return


@lru_cache(maxsize=None)
def a5_any_rule() -> tuple:
    """A5-ANY(r): 5-player games of NO particular class, defined by a fixed arithmetic rule (reproducible, tie-heavy, half-integers):
    singletons 1, v(N) = 10 or 12, v(S) = |S| + ((7*id + 13*k) mod 5)/2 - 1 for k = 0..11. Most are not superadditive."""
    out = []
    for k in range(12):
        v = [0.0] * 32
        for s in range(1, 32):
            c = popcount(s)
            if c == 1:
                v[s] = 1.0
            elif c == 5:
                v[s] = 10.0 if k % 2 == 0 else 12.0
            else:
                v[s] = c + ((7 * s + 13 * k) % 5) / 2 - 1
        out.append(tuple(v))
    # the textbook shape: everything worth its size except a family of deficient triples
    for deficient in (2.5, 2.0):
        v = [float(popcount(s)) for s in range(32)]
        v[31] = 10.0
        for s in range(32):
            if popcount(s) == 3 and not s & 0b10000:
                v[s] = deficient
        out.append(tuple(v))
    return tuple(out)
