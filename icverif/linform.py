"""E5 — generic-point execution: run the real Shapley / exploitability code on indeterminates.

A LinForm is a formal linear combination sum c_k x_k + c_0 with exact rational coefficients. The real code is
executed on games whose values are indeterminates; it either raises NonLinear (it branched on data or multiplied
two unknowns: the basis argument is void) or returns the exact linear form it computes. Concrete execution over a
free module - no solver, no path exploration.
"""
from __future__ import annotations

from fractions import Fraction
from numbers import Number

import numpy as np


class NonLinear(Exception):
    """The code under test did something that is not linear in the game values (or looked at them)."""


def _num(x) -> Fraction:
    if isinstance(x, (bool, np.bool_)):
        return Fraction(int(x))
    if isinstance(x, (int, np.integer)):
        return Fraction(int(x))
    if isinstance(x, (float, np.floating)):
        return Fraction(float(x))      # exact
    if isinstance(x, Fraction):
        return x
    raise NonLinear(f"unsupported scalar {type(x).__name__}")


class LinForm:
    __array_ufunc__ = None      # numpy scalars/arrays must defer to our reflected operators
    __slots__ = ("c",)

    def __init__(self, coeffs: dict | None = None) -> None:
        self.c = {k: v for k, v in (coeffs or {}).items() if v != 0}

    @staticmethod
    def var(name) -> "LinForm":
        return LinForm({name: Fraction(1)})

    @staticmethod
    def const(x) -> "LinForm":
        return LinForm({1: _num(x)})

    def _lift(self, other) -> "LinForm":
        if isinstance(other, LinForm):
            return other
        if isinstance(other, (Number, np.generic)):
            return LinForm.const(other)
        raise NonLinear(f"cannot combine LinForm with {type(other).__name__}")

    def __add__(self, other):
        o = self._lift(other)
        r = dict(self.c)
        for k, v in o.c.items():
            r[k] = r.get(k, 0) + v
        return LinForm(r)

    __radd__ = __add__

    def __neg__(self):
        return LinForm({k: -v for k, v in self.c.items()})

    def __sub__(self, other):
        return self + (-self._lift(other))

    def __rsub__(self, other):
        return self._lift(other) - self

    def __mul__(self, other):
        if isinstance(other, LinForm):
            if set(other.c) <= {1}:
                return self * other.c.get(1, Fraction(0))
            if set(self.c) <= {1}:
                return other * self.c.get(1, Fraction(0))
            raise NonLinear("product of two unknowns")
        f = _num(other)
        return LinForm({k: v * f for k, v in self.c.items()})

    __rmul__ = __mul__

    def __truediv__(self, other):
        if isinstance(other, LinForm):
            raise NonLinear("division by an unknown")
        return self * (Fraction(1) / _num(other))

    def _refuse(self, *a, **k):
        raise NonLinear("the code under test inspected a game value (comparison / conversion / truth test)")

    __lt__ = __le__ = __gt__ = __ge__ = __bool__ = __float__ = __int__ = __abs__ = _refuse
    __eq__ = _refuse      # type: ignore[assignment]
    __hash__ = None       # type: ignore[assignment]

    def coeff(self, k) -> Fraction:
        return self.c.get(k, Fraction(0))

    def __repr__(self) -> str:
        return "LinForm(" + " + ".join(f"{v}*{k}" for k, v in sorted(self.c.items(), key=str)) + ")"


def _arr(items) -> np.ndarray:
    a = np.empty(len(items), dtype=object)
    for i, x in enumerate(items):
        a[i] = x
    return a


class GenericGame:
    """Complete game whose value of coalition S is the indeterminate ('v', S); v(empty) = 0."""

    def __init__(self, n: int) -> None:
        self.number_of_players = n
        self._vals = [LinForm() if s == 0 else LinForm.var(("v", s)) for s in range(1 << n)]

    def get_values(self, coalitions=None):
        if coalitions is None:
            return _arr(self._vals)
        return _arr([self._vals[c.id] for c in coalitions])

    def get_value(self, coalition):
        return self._vals[coalition.id]

    def copy(self):
        return self

    def __add__(self, other):
        raise NonLinear("addition of generic games is not needed")


class GenericBoundsGame(GenericGame):
    """Incomplete game with indeterminate lower ('l', S) and upper ('u', S) bounds; empty = 0, grand known: l_N = u_N = ('v', N)."""

    def __init__(self, n: int) -> None:
        self.number_of_players = n
        N = (1 << n) - 1
        self._lo = [LinForm() if s == 0 else LinForm.var(("v", N)) if s == N else LinForm.var(("l", s)) for s in range(1 << n)]
        self._up = [LinForm() if s == 0 else LinForm.var(("v", N)) if s == N else LinForm.var(("u", s)) for s in range(1 << n)]

    def _pick(self, arr, coalitions):
        return _arr(arr) if coalitions is None else _arr([arr[c.id] for c in coalitions])

    def get_upper_bounds(self, coalitions=None):
        return self._pick(self._up, coalitions)

    def get_lower_bounds(self, coalitions=None):
        return self._pick(self._lo, coalitions)

    def get_upper_bound(self, coalition):
        return self._up[coalition.id]

    def get_lower_bound(self, coalition):
        return self._lo[coalition.id]

    def get_value(self, coalition):
        N = (1 << self.number_of_players) - 1
        if coalition.id in (0, N):
            return self._up[coalition.id]
        raise NonLinear("value of an unknown coalition requested")

    def get_values(self, coalitions=None):
        raise NonLinear("values of an incomplete generic game requested")

    def is_value_known(self, coalition) -> bool:
        return coalition.id in (0, (1 << self.number_of_players) - 1)

    def are_values_known(self, coalitions=None):
        N = (1 << self.number_of_players) - 1
        ids = range(1 << self.number_of_players) if coalitions is None else [c.id for c in coalitions]
        return np.array([i in (0, N) for i in ids])

    def get_known_value(self, coalition):
        return self.get_value(coalition) if self.is_value_known(coalition) else None
