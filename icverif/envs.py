"""Helpers to build and observe the real ICG_Gym / ICG_Gym_Linear with harness-owned hidden games (G3)."""
from __future__ import annotations

from typing import Any, NamedTuple

import numpy as np

from . import use_repo
from .alphabets import minimal_ids
from .lattice import Tab, coal, computer, read

use_repo()


def full_game(v):
    """A complete real game object holding the hidden values v."""
    from incomplete_cooperative.game import IncompleteCooperativeGame
    n = (len(v) - 1).bit_length()
    g = IncompleteCooperativeGame(n)
    g.set_values(np.array(v, dtype=np.float64))
    return g


class Script:
    """Scripted hidden-game generator: hands out the listed games in order (cycling), counts the draws."""

    def __init__(self, games) -> None:
        self.games = [tuple(g) for g in games]
        self.calls = 0

    def __call__(self):
        g = self.games[self.calls % len(self.games)]
        self.calls += 1
        return full_game(g)


def make_env(n: int, script: Script, comp: str, gap, budget: int | None = None, linear: bool = False, known_extra: tuple = ()):
    from incomplete_cooperative.game import IncompleteCooperativeGame
    from incomplete_cooperative.icg_gym import ICG_Gym
    inc = IncompleteCooperativeGame(n, computer(comp))
    env = ICG_Gym(inc, script, [coal(s) for s in tuple(minimal_ids(n)) + tuple(known_extra)], gap, done_after_n_actions=budget)
    if linear:
        from incomplete_cooperative.icg_gym_linear import ICG_Gym_Linear
        return ICG_Gym_Linear(env)
    return env


class Obs(NamedTuple):
    state: bytes
    reward: float
    done: bool
    mask: bytes
    steps: int
    table: bytes
    hidden: bytes


def observe(env) -> Obs:
    """Everything a consumer can see of the env, through public attributes."""
    tab: Tab = read(env.incomplete_game)
    return Obs((np.asarray(env.state, dtype=np.float64) + 0.0).tobytes(), float(env.reward) + 0.0, bool(env.done),
               np.asarray(env.action_masks()).tobytes(), int(env.steps_taken), tab.key,
               (np.asarray(env.full_game.get_values(), dtype=np.float64) + 0.0).tobytes())


def explorable(env) -> list[int]:
    return [c.id for c in env.explorable_coalitions]
